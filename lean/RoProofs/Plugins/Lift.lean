/-
  RoProofs.Plugins.Lift — the parametric lift theorems of C18(a): for ANY function `f`, the
  stream a plugin operator of shape `ro.Map(f)` / `ro.MapErr(f)` / `ro.Filter(p)` delivers is `f`
  applied item by item (each result with the context of its item), ending at the first error `f`
  returns, otherwise with the source's own ending — for every raw source script (legal or not),
  both source modes and every subscription context.  Restated from `map_spec`, `mapErr_spec`,
  `filter_spec` for the plugin shape (no index, context passed through).
-/
import RoModel.Plugins.Lift
import RoProofs.Ops.Basic
import RoProofs.Ops.FilterSpecs
import RoProofs.Ops.TransformSpecs
namespace Ro.Plugins
open Ro

variable {α β : Type}

/-- `f` applied to every value, then the source's ending -/
def liftMapSpec (f : α → β) (vs : List (Ctx × α)) (e : Ending) : List (Notif β) :=
  vs.map (fun p => Notif.next p.1 (f p.2)) ++ e.toList

/-- `f` applied item by item; the first item for which `f` returns an error ends the stream with
    that error (and that item's context); nothing follows it -/
def liftMapErrSpec (f : α → β × Option Err) : List (Ctx × α) → Ending → List (Notif β)
  | [], e => e.toList
  | p :: vs, e =>
    match (f p.2).2 with
    | some err => [Notif.error p.1 err]
    | none => Notif.next p.1 (f p.2).1 :: liftMapErrSpec f vs e

/-- the values satisfying `p`, unchanged, then the source's ending -/
def liftFilterSpec (p : α → Bool) (vs : List (Ctx × α)) (e : Ending) : List (Notif α) :=
  (vs.filter (fun q => p q.2)).map (fun q => Notif.next q.1 q.2) ++ e.toList

theorem zipIdx_map_fst' {γ δ : Type} (l : List γ) (g : γ → δ) (n : Nat) :
    (l.zipIdx n).map (fun q => g q.1) = l.map g := by
  induction l generalizing n with
  | nil => rfl
  | cons x xs ih => simp [List.zipIdx_cons, ih]

theorem lift_map (f : α → β) (mode : SrcMode) (sub : Ctx) (raw : List (Notif α)) :
    (runOp (liftMap f) mode sub raw).out = liftMapSpec f (values raw) (ending raw) := by
  unfold liftMap
  rw [map_spec]
  unfold Spec.map liftMapSpec
  rw [zipIdx_map_fst' (values raw) (fun p => Notif.next p.1 (f p.2))]

theorem mapErr_as_rec (f : α → β × Option Err) (vs : List (Ctx × α)) (e : Ending) (n : Nat) :
    (((vs.zipIdx n).map (fun q => ((f q.1.2).1, q.1.1, (f q.1.2).2))).takeWhile (fun r => r.2.2.isNone)).map
        (fun r => Notif.next r.2.1 r.1) ++
      (match ((vs.zipIdx n).map (fun q => ((f q.1.2).1, q.1.1, (f q.1.2).2))).findSome?
          (fun r => r.2.2.map (fun err => (r.2.1, err))) with
        | some ce => [Notif.error ce.1 ce.2]
        | none => e.toList)
    = liftMapErrSpec f vs e := by
  induction vs generalizing n with
  | nil => simp [liftMapErrSpec]
  | cons p ps ih =>
    simp only [List.zipIdx_cons, List.map_cons, liftMapErrSpec]
    cases h : (f p.2).2 with
    | none =>
      simp only [List.takeWhile_cons, Option.isNone_none, if_true, List.map_cons, List.findSome?_cons,
        Option.map_none, List.cons_append]
      rw [ih]
    | some err =>
      simp

theorem lift_mapErr (f : α → β × Option Err) (mode : SrcMode) (sub : Ctx) (raw : List (Notif α)) :
    (runOp (liftMapErr f) mode sub raw).out = liftMapErrSpec f (values raw) (ending raw) := by
  unfold liftMapErr
  rw [mapErr_spec]
  unfold Spec.mapErr
  exact mapErr_as_rec f (values raw) (ending raw) 0

theorem zipIdx_filter_map_fst' {γ δ : Type} (l : List γ) (p : γ → Bool) (g : γ → δ) (n : Nat) :
    ((l.zipIdx n).filter (fun q => p q.1)).map (fun q => g q.1) = (l.filter p).map g := by
  induction l generalizing n with
  | nil => rfl
  | cons x xs ih =>
    simp only [List.zipIdx_cons, List.filter_cons]
    cases p x <;> simp [ih]

theorem lift_filter (p : α → Bool) (mode : SrcMode) (sub : Ctx) (raw : List (Notif α)) :
    (runOp (liftFilter p) mode sub raw).out = liftFilterSpec p (values raw) (ending raw) := by
  unfold liftFilter
  rw [filter_spec]
  unfold Spec.filter liftFilterSpec
  rw [zipIdx_filter_map_fst' (values raw) (fun q => p q.2) (fun q => Notif.next q.1 q.2)]

/-! ### consequences used by the property text -/

/-- a `MapErr` lift never delivers anything after the error of the wrapped function -/
theorem liftMapErrSpec_grammar (f : α → β × Option Err) (vs : List (Ctx × α)) (e : Ending) :
    Grammar (liftMapErrSpec f vs e) := by
  induction vs with
  | nil => cases e <;> simp [liftMapErrSpec, Ending.toList, Grammar]
  | cons p ps ih =>
    unfold liftMapErrSpec
    cases (f p.2).2 with
    | none => simpa [Grammar] using ih
    | some err => simp [Grammar]

/-- conditional round trip: if `dec (enc x) = (x, none)` for every `x` (the library pair is
    inverse), then `Map(enc) |> MapErr(dec)` is the identity on every stream — stated on the
    specification level, for the composed list functions -/
theorem roundtrip_spec (enc : α → β) (dec : β → α × Option Err) (h : ∀ x, dec (enc x) = (x, none))
    (vs : List (Ctx × α)) (e : Ending) :
    liftMapErrSpec dec (vs.map (fun p => (p.1, enc p.2))) e = vs.map (fun p => Notif.next p.1 p.2) ++ e.toList := by
  induction vs with
  | nil => simp [liftMapErrSpec]
  | cons p ps ih => simp [liftMapErrSpec, h, ih]

-- non-vacuity: a MapErr lift over a script with an illegal suffix; the third item fails
example :
    (runOp (liftMapErr (fun (v : Nat) => (v * 10, if v = 3 then some (Err.user 9) else none))) .hot Ctx.bg
      [.next (Ctx.bg.tag 1) 1, .next (Ctx.bg.tag 2) 2, .next (Ctx.bg.tag 3) 3, .next (Ctx.bg.tag 4) 4, .complete Ctx.bg, .next Ctx.bg 5]).out
    = [.next (Ctx.bg.tag 1) 10, .next (Ctx.bg.tag 2) 20, .error (Ctx.bg.tag 3) (.user 9)] := by decide

example :
    (runOp (liftMap (fun (v : Nat) => v + 1)) .sync Ctx.bg
      [.next (Ctx.bg.tag 1) 1, .next (Ctx.bg.tag 2) 2, .error Ctx.bg (.user 4), .next Ctx.bg 5]).out
    = [.next (Ctx.bg.tag 1) 2, .next (Ctx.bg.tag 2) 3, .error Ctx.bg (.user 4)] := by decide

example :
    (runOp (liftFilter (fun (v : Nat) => v % 2 == 0)) .sync Ctx.bg
      [.next (Ctx.bg.tag 1) 1, .next (Ctx.bg.tag 2) 2, .next (Ctx.bg.tag 3) 4, .complete (Ctx.bg.tag 9)]).out
    = [.next (Ctx.bg.tag 2) 2, .next (Ctx.bg.tag 3) 4, .complete (Ctx.bg.tag 9)] := by decide

end Ro.Plugins

/-
  RoProofs.Plugins.Sort — what `sort.Slice` does for the three sort operators of plugins/sort.

  * `goInsertionSort` (Go's `insertionSortLessFunc`, what `sort.Slice` runs for ≤ 12 elements) is a
    permutation (no hypothesis), and for a comparison that is a strict weak order it IS the stable
    sort: `goInsertionSort lt l = stableSort lt l` (core's `List.mergeSort`).
  * `sortSlice` is therefore stable up to 12 elements; above that only "sorted permutation" is
    available (package sort's contract for the unmodelled pdqsort).
  * the machine `sortM sorter` = collect, sort, replay with the context of the completion.

  Hypotheses on the comparison are stated on `leOf lt a b := !lt b a`, as core's `mergeSort` lemmas do.
  Core Lean only.
-/
import RoModel.Plugins.Sort
import RoProofs.Gate
import RoProofs.Script
namespace Ro.Plugins.Sort
open Ro

variable {α : Type}

/-- `a ≤ b` derived from the strict `less`: `!less(b, a)` -/
@[reducible] def leOf (lt : α → α → Bool) : α → α → Bool := fun a b => !lt b a

/-! ### consequences of "strict weak order" -/

/-- `x < b ≤ y → x < y` -/
theorem lt_of_lt_of_le {lt : α → α → Bool}
    (trans : ∀ a b c, leOf lt a b = true → leOf lt b c = true → leOf lt a c = true)
    {x b y : α} (h1 : lt x b = true) (h2 : leOf lt b y = true) : lt x y = true := by
  cases h : lt x y with
  | true => rfl
  | false =>
    have := trans b y x h2 (by simp [leOf, h])
    simp [leOf, h1] at this

theorem le_of_lt {lt : α → α → Bool} (total : ∀ a b, (leOf lt a b || leOf lt b a) = true)
    {a b : α} (h : lt a b = true) : leOf lt a b = true := by
  have t := total a b
  simpa [leOf, h] using t

theorem lt_trans {lt : α → α → Bool}
    (trans : ∀ a b c, leOf lt a b = true → leOf lt b c = true → leOf lt a c = true)
    (total : ∀ a b, (leOf lt a b || leOf lt b a) = true)
    {a b c : α} (h1 : lt a b = true) (h2 : lt b c = true) : lt a c = true :=
  lt_of_lt_of_le trans h1 (le_of_lt total h2)

/-! ### the two textbook insertions -/

/-- left-biased ordered insertion: `a` goes in front of the first element it is `≤` to
    (so before all elements equivalent to it) -/
def insL (lt : α → α → Bool) (a : α) : List α → List α
  | [] => [a]
  | b :: s => if lt b a then b :: insL lt a s else a :: b :: s

/-- right-biased ordered insertion: `x` goes in front of the first element it is `<` to
    (so after all elements equivalent to it) -/
def insR (lt : α → α → Bool) (x : α) : List α → List α
  | [] => [x]
  | b :: s => if lt x b then x :: b :: s else b :: insR lt x s

/-- inserting an earlier element on the left and a later element on the right commute -/
theorem insL_insR_comm {lt : α → α → Bool}
    (trans : ∀ a b c, leOf lt a b = true → leOf lt b c = true → leOf lt a c = true)
    (total : ∀ a b, (leOf lt a b || leOf lt b a) = true) (a x : α) (s : List α) :
    insL lt a (insR lt x s) = insR lt x (insL lt a s) := by
  induction s with
  | nil =>
    cases hxa : lt x a <;> simp [insL, insR, hxa]
  | cons b t ih =>
    cases hxb : lt x b <;> cases hba : lt b a
    · -- b ≤ x, a ≤ b : a ≤ x
      have hax : lt x a = false := by
        have := trans a b x (by simp [leOf, hba]) (by simp [leOf, hxb])
        simpa [leOf] using this
      simp [insL, insR, hxb, hba, hax]
    · simp [insL, insR, hxb, hba, ih]
    · cases hxa : lt x a <;> simp [insL, insR, hxb, hba, hxa]
    · have hxa : lt x a = true := lt_trans trans total hxb hba
      simp [insL, insR, hxb, hba, hxa]

theorem foldl_insR_insL {lt : α → α → Bool}
    (trans : ∀ a b c, leOf lt a b = true → leOf lt b c = true → leOf lt a c = true)
    (total : ∀ a b, (leOf lt a b || leOf lt b a) = true) (a : α) (l s : List α) :
    l.foldl (fun acc x => insR lt x acc) (insL lt a s) =
      insL lt a (l.foldl (fun acc x => insR lt x acc) s) := by
  induction l generalizing s with
  | nil => rfl
  | cons x l ih =>
    simp only [List.foldl_cons]
    rw [← insL_insR_comm trans total, ih]

/-- insertion sort from the left with right-biased insertion = insertion sort from the right with
    left-biased insertion -/
theorem foldl_insR_eq_foldr_insL {lt : α → α → Bool}
    (trans : ∀ a b c, leOf lt a b = true → leOf lt b c = true → leOf lt a c = true)
    (total : ∀ a b, (leOf lt a b || leOf lt b a) = true) (l : List α) :
    l.foldl (fun acc x => insR lt x acc) [] = l.foldr (insL lt) [] := by
  induction l with
  | nil => rfl
  | cons a l ih =>
    simp only [List.foldl_cons, List.foldr_cons]
    have : insR lt a [] = insL lt a [] := rfl
    rw [this, foldl_insR_insL trans total, ih]

/-! ### core's merge sort is the insertion sort `foldr insL` -/

theorem insL_append_of_lt {lt : α → α → Bool} (a : α) (l₁ l₂ : List α)
    (h : ∀ b ∈ l₁, lt b a = true) : insL lt a (l₁ ++ l₂) = l₁ ++ insL lt a l₂ := by
  induction l₁ with
  | nil => rfl
  | cons b t ih =>
    have hb := h b (by simp)
    simp only [List.cons_append, insL, hb, if_true]
    rw [ih (fun c hc => h c (by simp [hc]))]

theorem insL_of_le_head {lt : α → α → Bool} (a : α) (l : List α)
    (h : ∀ b ∈ l, leOf lt a b = true) : insL lt a l = a :: l := by
  cases l with
  | nil => rfl
  | cons b t =>
    have hb := h b (by simp)
    simp only [leOf, Bool.not_eq_true'] at hb
    simp [insL, hb]

theorem stableSort_cons {lt : α → α → Bool}
    (trans : ∀ a b c, leOf lt a b = true → leOf lt b c = true → leOf lt a c = true)
    (total : ∀ a b, (leOf lt a b || leOf lt b a) = true) (a : α) (l : List α) :
    stableSort lt (a :: l) = insL lt a (stableSort lt l) := by
  unfold stableSort
  obtain ⟨l₁, l₂, h1, h2, h3⟩ := List.mergeSort_cons (le := leOf lt) trans total a l
  have hs : ((a :: l).mergeSort (leOf lt)).Pairwise (fun x y => leOf lt x y = true) :=
    List.pairwise_mergeSort trans total _
  show (a :: l).mergeSort (leOf lt) = insL lt a (l.mergeSort (leOf lt))
  rw [h1] at hs
  rw [h1, h2]
  have hl2 : ∀ b ∈ l₂, leOf lt a b = true := by
    have := (List.pairwise_append.1 hs).2.1
    exact (List.pairwise_cons.1 this).1
  rw [insL_append_of_lt a l₁ l₂ (fun b hb => by simpa [leOf] using h3 b hb), insL_of_le_head a l₂ hl2]

theorem stableSort_eq_foldr {lt : α → α → Bool}
    (trans : ∀ a b c, leOf lt a b = true → leOf lt b c = true → leOf lt a c = true)
    (total : ∀ a b, (leOf lt a b || leOf lt b a) = true) (l : List α) :
    stableSort lt l = l.foldr (insL lt) [] := by
  induction l with
  | nil => simp [stableSort]
  | cons a l ih => rw [stableSort_cons trans total, ih, List.foldr_cons]

theorem stableSort_sorted {lt : α → α → Bool}
    (trans : ∀ a b c, leOf lt a b = true → leOf lt b c = true → leOf lt a c = true)
    (total : ∀ a b, (leOf lt a b || leOf lt b a) = true) (l : List α) :
    (stableSort lt l).Pairwise (fun a b => !lt b a) :=
  List.pairwise_mergeSort (le := leOf lt) trans total l

theorem stableSort_perm (lt : α → α → Bool) (l : List α) : (stableSort lt l).Perm l :=
  List.mergeSort_perm l _

/-! ### Go's insertion pass against `insR` -/

theorem insertRev_of_all_lt (lt : α → α → Bool) (x : α) (u : List α)
    (h : ∀ y ∈ u, lt x y = true) : insertRev lt x u = u ++ [x] := by
  induction u with
  | nil => rfl
  | cons y u ih =>
    have hy := h y (by simp)
    simp only [insertRev, hy, if_true, List.cons_append]
    rw [ih (fun z hz => h z (by simp [hz]))]

theorem insertRev_append_of_not_lt (lt : α → α → Bool) (x b : α) (u : List α)
    (h : lt x b = false) : insertRev lt x (u ++ [b]) = insertRev lt x u ++ [b] := by
  induction u with
  | nil => simp [insertRev, h]
  | cons y u ih =>
    cases hy : lt x y <;> simp [insertRev, hy, ih]

/-- on a sorted prefix, one pass of Go's loop is the right-biased insertion -/
theorem insertRev_reverse {lt : α → α → Bool}
    (trans : ∀ a b c, leOf lt a b = true → leOf lt b c = true → leOf lt a c = true)
    (x : α) (s : List α) (hs : s.Pairwise (fun a b => leOf lt a b = true)) :
    insertRev lt x s.reverse = (insR lt x s).reverse := by
  induction s with
  | nil => rfl
  | cons b t ih =>
    obtain ⟨hb, ht⟩ := List.pairwise_cons.1 hs
    cases hxb : lt x b
    · simp only [insR, hxb, List.reverse_cons]
      rw [insertRev_append_of_not_lt lt x b _ hxb, ih ht]
      simp
    · simp only [insR, hxb, if_true, List.reverse_cons]
      rw [insertRev_of_all_lt]
      intro y hy
      simp only [List.mem_append, List.mem_reverse, List.mem_singleton] at hy
      rcases hy with hy | rfl
      · exact lt_of_lt_of_le trans hxb (hb y hy)
      · exact hxb

/-! ### 1. permutation -/

theorem insertRev_perm (lt : α → α → Bool) (x : α) (u : List α) : (insertRev lt x u).Perm (x :: u) := by
  induction u with
  | nil => exact List.Perm.refl _
  | cons y u ih =>
    cases hy : lt x y
    · simp [insertRev, hy]
    · simp only [insertRev, hy, if_true]
      exact (List.Perm.cons y ih).trans (List.Perm.swap x y u)

theorem foldl_insertRev_perm (lt : α → α → Bool) (l acc : List α) :
    (l.foldl (fun acc x => insertRev lt x acc) acc).Perm (l.reverse ++ acc) := by
  induction l generalizing acc with
  | nil => simp
  | cons x l ih =>
    simp only [List.foldl_cons, List.reverse_cons, List.append_assoc, List.singleton_append]
    exact (ih _).trans (List.Perm.append_left _ (insertRev_perm lt x acc))

theorem goInsertionSort_perm (lt : α → α → Bool) (l : List α) : (goInsertionSort lt l).Perm l := by
  unfold goInsertionSort
  have h := foldl_insertRev_perm lt l []
  simp only [List.append_nil] at h
  exact (List.reverse_perm _).trans (h.trans (List.reverse_perm l))

/-! ### 3. Go's insertion sort is the stable sort -/

theorem foldl_insR_eq_stableSort {lt : α → α → Bool}
    (trans : ∀ a b c, leOf lt a b = true → leOf lt b c = true → leOf lt a c = true)
    (total : ∀ a b, (leOf lt a b || leOf lt b a) = true) (l : List α) :
    l.foldl (fun acc x => insR lt x acc) [] = stableSort lt l := by
  rw [foldl_insR_eq_foldr_insL trans total, stableSort_eq_foldr trans total]

theorem goInsertionSort_eq_stableSort (lt : α → α → Bool)
    (trans : ∀ a b c, leOf lt a b = true → leOf lt b c = true → leOf lt a c = true)
    (total : ∀ a b, (leOf lt a b || leOf lt b a) = true) (l : List α) :
    goInsertionSort lt l = stableSort lt l := by
  rw [← foldl_insR_eq_stableSort trans total]
  unfold goInsertionSort
  have key : ∀ r : List α, r.reverse.foldl (fun acc x => insertRev lt x acc) [] =
      (r.reverse.foldl (fun acc x => insR lt x acc) []).reverse := by
    intro r
    induction r with
    | nil => rfl
    | cons x r ih =>
      simp only [List.reverse_cons, List.foldl_append, List.foldl_cons, List.foldl_nil]
      rw [ih]
      apply insertRev_reverse trans
      rw [foldl_insR_eq_stableSort trans total]
      exact List.pairwise_mergeSort (le := leOf lt) trans total _
  have h := key l.reverse
  rw [List.reverse_reverse] at h
  rw [h, List.reverse_reverse]

/-! ### 2. sortedness -/

theorem goInsertionSort_sorted (lt : α → α → Bool)
    (trans : ∀ a b c, leOf lt a b = true → leOf lt b c = true → leOf lt a c = true)
    (total : ∀ a b, (leOf lt a b || leOf lt b a) = true) (l : List α) :
    (goInsertionSort lt l).Pairwise (fun a b => !lt b a) := by
  rw [goInsertionSort_eq_stableSort lt trans total]
  exact stableSort_sorted trans total l

/-- stability in the elementary form: the elements equivalent to `a` keep their input order -/
theorem stableSort_stable (lt : α → α → Bool)
    (trans : ∀ a b c, leOf lt a b = true → leOf lt b c = true → leOf lt a c = true)
    (total : ∀ a b, (leOf lt a b || leOf lt b a) = true) (l : List α) (a : α) :
    (stableSort lt l).filter (fun b => !lt a b && !lt b a) = l.filter (fun b => !lt a b && !lt b a) := by
  let p : α → Bool := fun b => !lt a b && !lt b a
  have hpw : (l.filter p).Pairwise (fun x y => leOf lt x y = true) := by
    apply List.Pairwise.imp_of_mem (R := fun _ _ => True) _ (List.pairwise_of_forall (fun _ _ => trivial))
    intro x y hx hy _
    have hx' := (List.mem_filter.1 hx).2
    have hy' := (List.mem_filter.1 hy).2
    simp only [p, Bool.and_eq_true] at hx' hy'
    exact trans x a y hx'.1 hy'.2
  have hsub : (l.filter p).Sublist (stableSort lt l) :=
    List.sublist_mergeSort (le := leOf lt) trans total hpw List.filter_sublist
  have hsub' : (l.filter p).Sublist ((stableSort lt l).filter p) := by
    have := hsub.filter p
    simpa only [List.filter_filter, Bool.and_self] using this
  have hlen : ((stableSort lt l).filter p).length = (l.filter p).length :=
    ((stableSort_perm lt l).filter p).length_eq
  exact (hsub'.eq_of_length hlen.symm).symm

theorem goInsertionSort_stable (lt : α → α → Bool)
    (trans : ∀ a b c, leOf lt a b = true → leOf lt b c = true → leOf lt a c = true)
    (total : ∀ a b, (leOf lt a b || leOf lt b a) = true) (l : List α) (a : α) :
    (goInsertionSort lt l).filter (fun b => !lt a b && !lt b a) = l.filter (fun b => !lt a b && !lt b a) := by
  rw [goInsertionSort_eq_stableSort lt trans total]
  exact stableSort_stable lt trans total l a

/-! ### 4. `sort.Slice` -/

theorem sortSlice_small (big : List α → List α) (lt : α → α → Bool)
    (trans : ∀ a b c, leOf lt a b = true → leOf lt b c = true → leOf lt a c = true)
    (total : ∀ a b, (leOf lt a b || leOf lt b a) = true) (l : List α) (h : l.length ≤ 12) :
    sortSlice big lt l = stableSort lt l := by
  unfold sortSlice
  rw [if_pos h, goInsertionSort_eq_stableSort lt trans total]

/-- whatever the size: if the unmodelled large-input sort keeps package sort's contract
    (a sorted permutation), so does `sort.Slice` -/
theorem sortSlice_perm_sorted (big : List α → List α) (lt : α → α → Bool)
    (trans : ∀ a b c, leOf lt a b = true → leOf lt b c = true → leOf lt a c = true)
    (total : ∀ a b, (leOf lt a b || leOf lt b a) = true)
    (hbig : ∀ l, (big l).Perm l ∧ (big l).Pairwise (fun a b => !lt b a)) (l : List α) :
    (sortSlice big lt l).Perm l ∧ (sortSlice big lt l).Pairwise (fun a b => !lt b a) := by
  unfold sortSlice
  split
  · exact ⟨goInsertionSort_perm lt l, goInsertionSort_sorted lt trans total l⟩
  · exact hbig l

/-! ### 5. the projection the check compares -/

/-- two sorted arrangements of the same elements show the same keys in the same order -/
theorem sorted_perm_keys_eq (key : α → Int) (l l₁ l₂ : List α)
    (s₁ : l₁.Pairwise (fun a b => !(decide (key b < key a))))
    (s₂ : l₂.Pairwise (fun a b => !(decide (key b < key a))))
    (p₁ : l₁.Perm l) (p₂ : l₂.Perm l) : l₁.map key = l₂.map key := by
  have conv : ∀ m : List α, m.Pairwise (fun a b => !(decide (key b < key a))) →
      (m.map key).Pairwise (fun x y : Int => x ≤ y) := by
    intro m hm
    rw [List.pairwise_map]
    exact hm.imp (fun {a b} h => by simpa using h)
  exact List.Perm.eq_of_pairwise (le := fun x y : Int => x ≤ y)
    (fun a b _ _ h1 h2 => Int.le_antisymm h1 h2) (conv l₁ s₁) (conv l₂ s₂)
    ((p₁.trans p₂.symm).map key)

/-- the comparison of the check: `cmp(a, b) < 0` is `key a < key b` -/
def keyLt (key : α → Int) : α → α → Bool := fun a b => decide (key a < key b)

theorem keyLt_trans (key : α → Int) (a b c : α) :
    leOf (keyLt key) a b = true → leOf (keyLt key) b c = true → leOf (keyLt key) a c = true := by
  simp only [leOf, keyLt, Bool.not_eq_true', decide_eq_false_iff_not, Int.not_lt]
  omega

theorem keyLt_total (key : α → Int) (a b : α) :
    (leOf (keyLt key) a b || leOf (keyLt key) b a) = true := by
  simp only [leOf, keyLt, Bool.or_eq_true, Bool.not_eq_true', decide_eq_false_iff_not, Int.not_lt]
  omega

/-- the same for any `lt` that is the comparison of a key -/
theorem sorted_perm_keys_eq' (key : α → Int) (lt : α → α → Bool)
    (hlt : ∀ a b, lt a b = decide (key a < key b)) (l l₁ l₂ : List α)
    (s₁ : l₁.Pairwise (fun a b => !lt b a)) (s₂ : l₂.Pairwise (fun a b => !lt b a))
    (p₁ : l₁.Perm l) (p₂ : l₂.Perm l) : l₁.map key = l₂.map key := by
  have e : (fun a b : α => (!lt b a) = true) = (fun a b => (!(decide (key b < key a))) = true) := by
    funext a b; rw [hlt]
  rw [e] at s₁ s₂
  exact sorted_perm_keys_eq key l l₁ l₂ s₁ s₂ p₁ p₂

/-- what the check may compare at every size: the keys of `sort.Slice`'s result are the keys of
    the stable sort, provided the large-input sort keeps package sort's contract -/
theorem sortSlice_keys_eq (key : α → Int) (big : List α → List α)
    (hbig : ∀ l, (big l).Perm l ∧ (big l).Pairwise (fun a b => !keyLt key b a)) (l : List α) :
    (sortSlice big (keyLt key) l).map key = (stableSort (keyLt key) l).map key := by
  have h := sortSlice_perm_sorted big (keyLt key) (keyLt_trans key) (keyLt_total key) hbig l
  exact sorted_perm_keys_eq' key (keyLt key) (fun _ _ => rfl) l _ _ h.2
    (stableSort_sorted (keyLt_trans key) (keyLt_total key) l) h.1 (stableSort_perm _ l)

/-! ### 6. the machine -/

/-- `Sort…`: nothing until the source completes; then the sorted values, each with the context of
    the completion, and the completion. An error is forwarded and the collected values are dropped. -/
def sortSpec (sorter : List α → List α) (vs : List (Ctx × α)) : Ending → List (Notif α)
  | .complete c => (sorter (vs.map (·.2))).map (Notif.next c) ++ [.complete c]
  | .error c e => [.error c e]
  | .never => []

theorem sortM_run (sorter : List α → List α) (acc : List α) (vs : List (Ctx × α)) :
    (sortM sorter).emitsV acc vs = [] ∧
    (sortM sorter).afterV acc vs = acc ++ vs.map (·.2) := by
  induction vs generalizing acc with
  | nil => simp [Machine.emitsV, Machine.afterV]
  | cons p ps ih =>
    obtain ⟨c, v⟩ := p
    have h1 : (sortM sorter).emitsV acc ((c, v) :: ps) =
        [] ++ (sortM sorter).emitsV (acc ++ [v]) ps := rfl
    have h2 : (sortM sorter).afterV acc ((c, v) :: ps) =
        (sortM sorter).afterV (acc ++ [v]) ps := rfl
    rw [h1, h2, (ih _).1, (ih _).2]
    simp

theorem hasTerm_map_next_const (c : Ctx) (l : List α) : hasTerm (l.map (Notif.next c)) = false := by
  induction l with
  | nil => rfl
  | cons x xs ih => simp [ih]

theorem sort_spec (sorter : List α → List α) (mode : SrcMode) (sub : Ctx) (raw : List (Notif α)) :
    (runOp (sortM sorter) mode sub raw).out = sortSpec sorter (values raw) (ending raw) := by
  rw [runOp_out_plain _ _ _ _ rfl (fun _ _ => rfl)]
  rw [(sortM_run _ _ _).1, (sortM_run _ _ _).2]
  have hi : (sortM sorter).init = [] := rfl
  rw [hi]
  cases ending raw with
  | never => rfl
  | error c e => rfl
  | complete c =>
    show gate ([] ++ ((sorter ([] ++ (values raw).map (·.2))).map (Notif.next c) ++ [Notif.complete c])) = _
    simp only [List.nil_append, sortSpec]
    exact gate_values_ending _ (.complete c) (hasTerm_map_next_const c _)

/-- the statement with the right-hand side spelled out -/
theorem sort_spec' (sorter : List α → List α) (mode : SrcMode) (sub : Ctx) (raw : List (Notif α)) :
    (runOp (sortM sorter) mode sub raw).out =
      match ending raw with
      | .complete c => ((sorter ((values raw).map (·.2))).map (Notif.next c)) ++ [.complete c]
      | .error c e => [.error c e]
      | .never => [] := by
  rw [sort_spec]
  cases ending raw <;> rfl

/-! ### 7. non-vacuity -/

private def ltFst : Nat × Nat → Nat × Nat → Bool := fun a b => a.1 < b.1

/-- the hypotheses are satisfiable: comparison of a key is a strict weak order -/
private theorem ltFst_trans (a b c : Nat × Nat) :
    leOf ltFst a b = true → leOf ltFst b c = true → leOf ltFst a c = true := by
  simp only [leOf, ltFst, Bool.not_eq_true', decide_eq_false_iff_not, Nat.not_lt]
  omega
private theorem ltFst_total (a b : Nat × Nat) : (leOf ltFst a b || leOf ltFst b a) = true := by
  simp only [leOf, ltFst, Bool.or_eq_true, Bool.not_eq_true', decide_eq_false_iff_not, Nat.not_lt]
  omega

example : goInsertionSort ltFst [(3,0),(1,1),(3,2),(1,3),(2,4)] = [(1,1),(1,3),(2,4),(3,0),(3,2)] := by
  decide
/-- (`List.mergeSort` is defined by well-founded recursion and does not evaluate under `decide`;
    it is evaluated through `stableSort_eq_foldr`) -/
example : stableSort ltFst [(3,0),(1,1),(3,2),(1,3),(2,4)] = [(1,1),(1,3),(2,4),(3,0),(3,2)] := by
  rw [stableSort_eq_foldr ltFst_trans ltFst_total]
  decide

/-- an unstable but correct `sort.Slice` result differs from the stable one, and the key projection
    does not see the difference -/
example : [(1,3),(1,1),(2,4),(3,0),(3,2)] ≠ stableSort ltFst [(3,0),(1,1),(3,2),(1,3),(2,4)] ∧
    [(1,3),(1,1),(2,4),(3,0),(3,2)].map (·.1) =
      (stableSort ltFst [(3,0),(1,1),(3,2),(1,3),(2,4)]).map (·.1) := by
  rw [stableSort_eq_foldr ltFst_trans ltFst_total]
  decide

private def ex_sort : List (Notif (Nat × Nat)) :=
  [.next (Ctx.bg.tag 1) (3,0), .next (Ctx.bg.tag 2) (1,1), .next Ctx.bg (3,2), .next (Ctx.bg.tag 1) (1,3),
   .next Ctx.bg (2,4), .complete (Ctx.bg.tag 9), .next Ctx.bg (0,5), .error Ctx.bg (.user 1)]
example :
    (runOp (sortM (goInsertionSort ltFst)) .hot Ctx.bg ex_sort).out =
      [.next (Ctx.bg.tag 9) (1,1), .next (Ctx.bg.tag 9) (1,3), .next (Ctx.bg.tag 9) (2,4),
       .next (Ctx.bg.tag 9) (3,0), .next (Ctx.bg.tag 9) (3,2), .complete (Ctx.bg.tag 9)] ∧
    sortSpec (goInsertionSort ltFst) (values ex_sort) (ending ex_sort) =
      [.next (Ctx.bg.tag 9) (1,1), .next (Ctx.bg.tag 9) (1,3), .next (Ctx.bg.tag 9) (2,4),
       .next (Ctx.bg.tag 9) (3,0), .next (Ctx.bg.tag 9) (3,2), .complete (Ctx.bg.tag 9)] := by
  decide

private def ex_sort_err : List (Notif (Nat × Nat)) :=
  [.next (Ctx.bg.tag 1) (3,0), .next (Ctx.bg.tag 2) (1,1), .error (Ctx.bg.tag 7) (.user 1), .complete Ctx.bg]
example :
    (runOp (sortM (goInsertionSort ltFst)) .sync Ctx.bg ex_sort_err).out = [.error (Ctx.bg.tag 7) (.user 1)] ∧
    sortSpec (goInsertionSort ltFst) (values ex_sort_err) (ending ex_sort_err) =
      [.error (Ctx.bg.tag 7) (.user 1)] := by
  decide

end Ro.Plugins.Sort

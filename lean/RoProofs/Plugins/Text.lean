/-
  RoProofs.Plugins.Text — the two `Ellipsis` helpers of RoModel.Plugins.Text:
  the byte flavour computes the same value as the string flavour, the repaired byte helper never
  writes to the caller's array, and the pinned one writes to it exactly in the truncating branch
  (always in place, inside the input window).
-/
import RoModel.Plugins.Text
namespace Ro.Plugins.Text

/-! ### space sequences -/

theorem spaceSeqs_pos : ∀ q ∈ spaceSeqs, 0 < q.length := by decide

theorem spacePrefix_spec (x : Bytes) :
    (spacePrefix x = 0 ∧ ∀ q ∈ spaceSeqs, ¬ q <+: x) ∨
    ∃ q ∈ spaceSeqs, q <+: x ∧ spacePrefix x = q.length := by
  unfold spacePrefix
  split
  · next q hq =>
    refine Or.inr ⟨q, List.mem_of_find?_eq_some hq, ?_, rfl⟩
    simpa using List.find?_some hq
  · next hnone =>
    refine Or.inl ⟨rfl, fun q hq hpre => ?_⟩
    rw [List.find?_eq_none] at hnone
    have := hnone q hq
    simp only [List.isPrefixOf_iff_prefix] at this
    exact this hpre

theorem spaceSuffix_spec (x : Bytes) :
    spaceSuffix x = 0 ∨ ∃ q ∈ spaceSeqs, q <:+ x ∧ spaceSuffix x = q.length := by
  unfold spaceSuffix
  split
  · next q hq =>
    refine Or.inr ⟨q, List.mem_of_find?_eq_some hq, ?_, rfl⟩
    have := List.find?_some hq
    simpa [List.isPrefixOf_iff_prefix, List.reverse_prefix] using this
  · exact Or.inl rfl

theorem spacePrefix_ne_zero_iff (x : Bytes) : spacePrefix x ≠ 0 ↔ ∃ q ∈ spaceSeqs, q <+: x := by
  rcases spacePrefix_spec x with ⟨h0, hn⟩ | ⟨q, hq, hpre, hl⟩
  · simp only [h0, ne_eq, not_true_eq_false, false_iff]
    rintro ⟨q, hq, hpre⟩
    exact hn q hq hpre
  · have := spaceSeqs_pos q hq
    exact ⟨fun _ => ⟨q, hq, hpre⟩, fun _ => by omega⟩

theorem spacePrefix_le (x : Bytes) : spacePrefix x ≤ x.length := by
  rcases spacePrefix_spec x with ⟨h0, _⟩ | ⟨q, _, hpre, hl⟩
  · omega
  · rw [hl]; exact hpre.length_le

theorem spaceSuffix_le (x : Bytes) : spaceSuffix x ≤ x.length := by
  rcases spaceSuffix_spec x with h0 | ⟨q, _, hsuf, hl⟩
  · omega
  · rw [hl]; exact hsuf.length_le

/-! ### `trimLeftN`, `trimRightN`, `trimSpace` -/

theorem trimLeftN_le (fuel : Nat) (x : Bytes) : trimLeftN fuel x ≤ x.length := by
  induction fuel generalizing x with
  | zero => simp [trimLeftN]
  | succ fuel ih =>
    simp only [trimLeftN]
    split
    · omega
    · have h1 := spacePrefix_le x
      have h2 := ih (x.drop (spacePrefix x))
      simp only [List.length_drop] at h2
      omega

theorem trimRightN_le (fuel : Nat) (x : Bytes) : trimRightN fuel x ≤ x.length := by
  induction fuel generalizing x with
  | zero => simp [trimRightN]
  | succ fuel ih =>
    simp only [trimRightN]
    split
    · omega
    · have h1 := spaceSuffix_le x
      have h2 := ih (x.take (x.length - spaceSuffix x))
      simp only [List.length_take] at h2
      omega

theorem take_length_take (m : Nat) (x : List α) : x.take (x.take m).length = x.take m := by
  rw [List.length_take]
  by_cases h : m ≤ x.length
  · rw [Nat.min_eq_left h]
  · rw [Nat.min_eq_right (by omega), List.take_length, List.take_of_length_le (by omega)]

/-- the trimmed string is the window of its own length starting after the removed prefix -/
theorem trimSpace_eq (v : Bytes) :
    trimSpace v = (v.drop (trimLeftN v.length v)).take (trimSpace v).length := by
  have : trimSpace v = (v.drop (trimLeftN v.length v)).take
      ((v.drop (trimLeftN v.length v)).length -
        trimRightN (v.drop (trimLeftN v.length v)).length (v.drop (trimLeftN v.length v))) := rfl
  rw [this, take_length_take]

theorem trimSpace_length_le (v : Bytes) :
    (trimSpace v).length + trimLeftN v.length v ≤ v.length := by
  have h1 := trimLeftN_le v.length v
  have h2 := congrArg List.length (trimSpace_eq v)
  simp only [List.length_take, List.length_drop] at h2
  omega

/-- after `trimLeft` no space rune is at the front -/
theorem spacePrefix_drop_trimLeftN (fuel : Nat) (x : Bytes) (hf : x.length ≤ fuel) :
    spacePrefix (x.drop (trimLeftN fuel x)) = 0 := by
  induction fuel generalizing x with
  | zero =>
    have : x = [] := List.eq_nil_of_length_eq_zero (by omega)
    subst this; rfl
  | succ fuel ih =>
    simp only [trimLeftN]
    split
    · next h0 => simpa using h0
    · next hne =>
      rw [← List.drop_drop]
      apply ih
      simp only [List.length_drop]
      omega

theorem spacePrefix_take_eq_zero (m : Nat) (x : Bytes) (h0 : spacePrefix x = 0) :
    spacePrefix (x.take m) = 0 := by
  apply Classical.byContradiction
  intro hne
  obtain ⟨q, hq, hpre⟩ := (spacePrefix_ne_zero_iff _).1 hne
  exact (spacePrefix_ne_zero_iff x).2 ⟨q, hq, hpre.trans (List.take_prefix m x)⟩ h0

/-- a string wholly consumed from the right by space runes starts with a space rune -/
theorem spacePrefix_ne_zero_of_trimRightN (fuel : Nat) (x : Bytes) (hx : x ≠ [])
    (hall : trimRightN fuel x = x.length) : spacePrefix x ≠ 0 := by
  induction fuel generalizing x with
  | zero =>
    simp only [trimRightN] at hall
    exact absurd (List.eq_nil_of_length_eq_zero hall.symm) hx
  | succ fuel ih =>
    simp only [trimRightN] at hall
    split at hall
    · exact absurd (List.eq_nil_of_length_eq_zero hall.symm) hx
    · next hne =>
      rcases spaceSuffix_spec x with h0 | ⟨q, hq, hsuf, hl⟩
      · exact absurd h0 hne
      · obtain ⟨y, rfl⟩ := hsuf
        have hy : (y ++ q).take ((y ++ q).length - spaceSuffix (y ++ q)) = y := by
          rw [hl]; simp
        rw [hy] at hall
        rw [hl, List.length_append] at hall
        have hall' : trimRightN fuel y = y.length := by omega
        rw [spacePrefix_ne_zero_iff]
        by_cases hyn : y = []
        · subst hyn
          exact ⟨q, hq, by simp⟩
        · obtain ⟨q', hq', hpre'⟩ := (spacePrefix_ne_zero_iff y).1 (ih y hyn hall')
          exact ⟨q', hq', hpre'.trans (List.prefix_append y q)⟩

/-- trimming a non-empty string that does not start with a space rune leaves something -/
theorem trimSpace_ne_nil (x : Bytes) (hx : x ≠ []) (h0 : spacePrefix x = 0) : trimSpace x ≠ [] := by
  have hl : trimLeftN x.length x = 0 := by
    cases hlen : x.length with
    | zero => rfl
    | succ k => simp [trimLeftN, h0]
  have hE : trimSpace x = x.take (x.length - trimRightN x.length x) := by
    have hT : trimLeft x = x := by unfold trimLeft; rw [hl]; rfl
    show trimRight (trimLeft x) = _
    rw [hT]; rfl
  have hle := trimRightN_le x.length x
  have hlt : trimRightN x.length x ≠ x.length := fun he =>
    spacePrefix_ne_zero_of_trimRightN _ x hx he h0
  have hpos : 0 < x.length := List.length_pos_iff.2 hx
  intro hnil
  have := congrArg List.length hnil
  rw [hE, List.length_take] at this
  simp only [List.length_nil] at this
  omega

/-- a non-empty prefix of a trimmed string does not trim to nothing -/
theorem trimSpace_take_trimSpace_ne_nil (v : Bytes) (k : Nat) (hk : 0 < k) (hv : trimSpace v ≠ []) :
    trimSpace ((trimSpace v).take k) ≠ [] := by
  apply trimSpace_ne_nil
  · intro hnil
    have := congrArg List.length hnil
    have hpos : 0 < (trimSpace v).length := List.length_pos_iff.2 hv
    simp only [List.length_take, List.length_nil] at this
    omega
  · apply spacePrefix_take_eq_zero
    rw [trimSpace_eq v]
    apply spacePrefix_take_eq_zero
    exact spacePrefix_drop_trimLeftN _ _ (Nat.le_refl _)

/-! ### windows -/

theorem Slice.length_view_le (h : Bytes) (s : Slice) : (s.view h).length ≤ s.len := by
  simp only [Slice.view, List.length_take]; omega

theorem Slice.view_prefix (h : Bytes) (s : Slice) (k : Nat) (hk : k ≤ s.len) :
    (s.prefix k).view h = (s.view h).take k := by
  simp only [Slice.view, Slice.prefix, List.take_take, Nat.min_eq_left hk]

/-- the window `bytes.TrimSpace` returns shows the trimmed value -/
theorem view_trimWindow (h : Bytes) (s : Slice) (c : Nat) :
    Slice.view h { off := s.off + trimLeftN (s.view h).length (s.view h),
                   len := (trimSpace (s.view h)).length, cap := c } = trimSpace (s.view h) := by
  have hle := trimSpace_length_le (s.view h)
  have hvl := Slice.length_view_le h s
  conv => rhs; rw [trimSpace_eq]
  generalize (trimSpace (s.view h)).length = tl at *
  generalize trimLeftN (s.view h).length (s.view h) = l at *
  simp only [Slice.view, List.drop_take, List.drop_drop, List.take_take]
  rw [Nat.min_eq_left (by omega)]

theorem trimSpaceS_view (h : Bytes) (s : Slice) :
    (trimSpaceS h s).view h = trimSpace (s.view h) := by
  unfold trimSpaceS
  simp only
  split
  · next h0 => exact (List.eq_nil_of_length_eq_zero h0).symm
  · exact view_trimWindow h s _

theorem trimSpaceS_eq_nil (h : Bytes) (s : Slice) (h0 : trimSpace (s.view h) = []) :
    trimSpaceS h s = .nil := by
  unfold trimSpaceS
  simp [h0]

theorem trimSpaceS_eq_window (h : Bytes) (s : Slice) (hne : trimSpace (s.view h) ≠ []) :
    trimSpaceS h s = .window { off := s.off + trimLeftN (s.view h).length (s.view h),
                               len := (trimSpace (s.view h)).length,
                               cap := s.cap - trimLeftN (s.view h).length (s.view h) } := by
  unfold trimSpaceS
  simp [hne]

/-- what `bytes.TrimSpace` returns when it is not nil: a valid sub-window with the same end of
    capacity -/
theorem trimSpaceS_window (h : Bytes) (s t : Slice) (hv : s.Valid h)
    (ht : trimSpaceS h s = .window t) :
    t.Valid h ∧ s.off ≤ t.off ∧ t.off + t.len ≤ s.off + s.len ∧ t.off + t.cap = s.off + s.cap ∧
    t.len = (trimSpace (s.view h)).length ∧ t.len ≠ 0 ∧ t.view h = trimSpace (s.view h) := by
  have hle := trimSpace_length_le (s.view h)
  have hvl := Slice.length_view_le h s
  obtain ⟨hv1, hv2⟩ := hv
  have hview := trimSpaceS_view h s
  rw [ht] at hview
  unfold trimSpaceS at ht
  simp only at ht
  split at ht
  · cases ht
  · next hne =>
    injection ht with ht
    subst ht
    refine ⟨⟨?_, ?_⟩, ?_, ?_, ?_, rfl, hne, hview⟩ <;> simp only <;> omega

/-! ### `writeAt`, `appendRef` -/

theorem writeAt_length (h : Bytes) (pos : Nat) (bs : Bytes) (hp : pos + bs.length ≤ h.length) :
    (writeAt h pos bs).length = h.length := by
  simp only [writeAt, List.length_append, List.length_take, List.length_drop]
  omega

theorem writeAt_getElem?_outside (h : Bytes) (pos : Nat) (bs : Bytes)
    (hp : pos + bs.length ≤ h.length) (i : Nat) (hi : i < pos ∨ pos + bs.length ≤ i) :
    (writeAt h pos bs)[i]? = h[i]? := by
  simp only [writeAt, List.getElem?_append, List.length_append, List.length_take,
    List.getElem?_take, List.getElem?_drop]
  rw [Nat.min_eq_left (by omega)]
  rcases hi with hi | hi
  · simp [hi, show i < pos + bs.length by omega]
  · rw [if_neg (by omega)]
    congr 1
    omega

theorem writeAt_getElem?_inside (h : Bytes) (pos : Nat) (bs : Bytes)
    (hp : pos + bs.length ≤ h.length) (j : Nat) (hj : j < bs.length) :
    (writeAt h pos bs)[pos + j]? = bs[j]? := by
  simp only [writeAt, List.getElem?_append, List.length_append, List.length_take]
  rw [Nat.min_eq_left (by omega), if_pos (by omega), if_neg (by omega)]
  congr 1
  omega

/-- the value `append` returns is the old value followed by the extra bytes, in both cases -/
theorem appendRef_view (h : Bytes) (r : Ref) (extra : Bytes)
    (hv : ∀ w, r = .window w → w.Valid h) :
    (appendRef h r extra).2.view (appendRef h r extra).1 = r.view h ++ extra := by
  cases r with
  | nil => rfl
  | fresh bs => rfl
  | window w =>
    obtain ⟨hv1, hv2⟩ := hv w rfl
    simp only [appendRef]
    split
    · next hcap =>
      simp only [Ref.view, Slice.view, writeAt]
      have hlen : (h.take (w.off + w.len)).length = w.off + w.len := by
        rw [List.length_take]; omega
      rw [List.append_assoc, List.drop_append_of_le_length (by omega), List.drop_take,
        Nat.add_sub_cancel_left, ← List.append_assoc]
      have hl2 : ((h.drop w.off).take w.len ++ extra).length = w.len + extra.length := by
        rw [List.length_append, List.length_take, List.length_drop]; omega
      rw [← hl2, List.take_left']
      rfl
    · rfl

/-! ### the helpers -/

theorem trimSpaceS_ne_fresh (h : Bytes) (s : Slice) (bs : Bytes) : trimSpaceS h s ≠ .fresh bs := by
  unfold trimSpaceS
  simp only
  split <;> intro hc <;> cases hc

/-- value of the helpers when `bytes.TrimSpace` leaves nothing -/
theorem ellipsis_of_nil (v : Bytes) (n : Int) (h0 : trimSpace v = []) :
    ellipsis v n = if (0 : Int) > n then dots else [] := by
  simp only [ellipsis, h0, List.length_nil, Int.natCast_zero]
  split
  · next hn => rw [if_pos (Or.inr (by omega))]
  · rfl

/-- the kept prefix `str[0:length-3]` of a valid trimmed window `t`, and what trimming it gives -/
theorem prefix_facts (h : Bytes) (t : Slice) (n : Int) (ht : t.Valid h) (hgt : (t.len : Int) > n) :
    (t.prefix (n - 3).toNat).Valid h ∧
    (trimSpaceS h (t.prefix (n - 3).toNat)).view h = trimSpace ((t.view h).take (n - 3).toNat) := by
  have hk : (n - 3).toNat ≤ t.len := by omega
  refine ⟨⟨?_, ht.2⟩, ?_⟩
  · have := ht.1
    simp only [Slice.prefix]; omega
  · rw [trimSpaceS_view, Slice.view_prefix h t _ hk]

/-- 1a. the pinned byte helper returns the value the string helper computes (read in the heap it
    leaves behind) -/
theorem ellipsisB_view (h : Bytes) (s : Slice) (n : Int) (hv : s.Valid h) :
    (ellipsisB h s n).2.view (ellipsisB h s n).1 = ellipsis (s.view h) n := by
  cases hts : trimSpaceS h s with
  | fresh bs => exact absurd hts (trimSpaceS_ne_fresh h s bs)
  | nil =>
    have h0 : trimSpace (s.view h) = [] := by rw [← trimSpaceS_view, hts]; rfl
    rw [ellipsis_of_nil _ _ h0]
    simp only [ellipsisB, hts]
    split <;> rfl
  | window t =>
    obtain ⟨htv, -, -, -, hlen, -, hview⟩ := trimSpaceS_window h s t hv hts
    simp only [ellipsisB, hts, ellipsis, ← hlen]
    split
    · next hgt =>
      split
      · rfl
      · obtain ⟨hpv, hpview⟩ := prefix_facts h t n htv hgt
        rw [appendRef_view, hpview, hview]
        intro w hw
        exact (trimSpaceS_window h _ w hpv hw).1
    · exact hview

/-- 1b. so does the repaired one (it leaves the heap as it was, see `ellipsisBFixed_heap`) -/
theorem ellipsisBFixed_view (h : Bytes) (s : Slice) (n : Int) (hv : s.Valid h) :
    (ellipsisBFixed h s n).2.view h = ellipsis (s.view h) n := by
  cases hts : trimSpaceS h s with
  | fresh bs => exact absurd hts (trimSpaceS_ne_fresh h s bs)
  | nil =>
    have h0 : trimSpace (s.view h) = [] := by rw [← trimSpaceS_view, hts]; rfl
    rw [ellipsis_of_nil _ _ h0]
    simp only [ellipsisBFixed, hts]
    split <;> rfl
  | window t =>
    obtain ⟨htv, -, -, -, hlen, -, hview⟩ := trimSpaceS_window h s t hv hts
    simp only [ellipsisBFixed, hts, ellipsis, ← hlen]
    split
    · next hgt =>
      split
      · rfl
      · obtain ⟨-, hpview⟩ := prefix_facts h t n htv hgt
        show (trimSpaceS h (t.prefix (n - 3).toNat)).view h ++ dots = _
        rw [hpview, hview]
    · exact hview

/-- 2. the repaired helper never writes to the caller's array -/
theorem ellipsisBFixed_heap (h : Bytes) (s : Slice) (n : Int) : (ellipsisBFixed h s n).1 = h := by
  unfold ellipsisBFixed
  split
  · split
    · split <;> rfl
    · rfl
  · split <;> rfl

/-
  3. Full statement (FALSE for the pinned code, see the witnesses below):
       theorem ellipsisB_heap (h s n) : (ellipsisB h s n).1 = h
  It holds outside the truncating branch; `length = 3` keeps `str[0:0]`, whose `TrimSpace` is nil,
  so `append` allocates.
-/
theorem ellipsisB_heap_partial (h : Bytes) (s : Slice) (n : Int)
    (hc : ¬ (((trimSpace (s.view h)).length : Int) > n ∧ 3 ≤ (trimSpace (s.view h)).length ∧ 3 < n)) :
    (ellipsisB h s n).1 = h := by
  by_cases hne : trimSpace (s.view h) = []
  · simp only [ellipsisB, trimSpaceS_eq_nil h s hne]
    split <;> rfl
  · simp only [ellipsisB, trimSpaceS_eq_window h s hne]
    split
    · next hgt =>
      split
      · rfl
      · next hn3 =>
        have hn : n = 3 := by omega
        subst hn
        rw [trimSpaceS_eq_nil]
        · rfl
        · simp [Slice.view, Slice.prefix]
          rfl
    · rfl

/-- the truncating branch: the dots are written in place right after a sub-window `t'` of the
    input window, and the result is `t'` extended over them -/
theorem ellipsisB_truncating (h : Bytes) (s : Slice) (n : Int) (hv : s.Valid h)
    (hc : ((trimSpace (s.view h)).length : Int) > n ∧ 3 ≤ (trimSpace (s.view h)).length ∧ 3 < n) :
    ∃ t' : Slice, s.off ≤ t'.off ∧ t'.off + t'.len + 3 ≤ s.off + s.len ∧
      t'.off + t'.len + 3 ≤ h.length ∧
      ellipsisB h s n =
        (writeAt h (t'.off + t'.len) dots, .window { t' with len := t'.len + 3 }) := by
  obtain ⟨hgt, h3, hn3⟩ := hc
  have hne : trimSpace (s.view h) ≠ [] := by
    intro h0; rw [h0] at h3; simp at h3
  obtain ⟨t, hts⟩ : ∃ t, trimSpaceS h s = .window t := ⟨_, trimSpaceS_eq_window h s hne⟩
  obtain ⟨htv, ho, hol, hoc, hlen, -, hview⟩ := trimSpaceS_window h s t hv hts
  have hgt' : (t.len : Int) > n := by omega
  obtain ⟨hpv, -⟩ := prefix_facts h t n htv hgt'
  have hk0 : 0 < (n - 3).toNat := by omega
  have hk3 : (n - 3).toNat + 3 < t.len := by omega
  generalize hkdef : (n - 3).toNat = k at *
  have hne' : trimSpace ((t.prefix k).view h) ≠ [] := by
    rw [Slice.view_prefix h t k (by omega), hview]
    exact trimSpace_take_trimSpace_ne_nil _ k hk0 hne
  obtain ⟨t', hts'⟩ : ∃ t', trimSpaceS h (t.prefix k) = .window t' :=
    ⟨_, trimSpaceS_eq_window h (t.prefix k) hne'⟩
  obtain ⟨htv', ho', hol', hoc', -, -, -⟩ := trimSpaceS_window h _ t' hpv hts'
  simp only [Slice.prefix] at ho' hol' hoc'
  obtain ⟨htv1, htv2⟩ := htv
  obtain ⟨htv1', htv2'⟩ := htv'
  have hsv := hv.1
  refine ⟨t', by omega, by omega, by omega, ?_⟩
  simp only [ellipsisB, hts]
  rw [if_pos hgt', if_neg (by omega), hkdef, hts']
  simp only [appendRef]
  rw [if_pos (by simp only [dots, List.length_cons, List.length_nil]; omega)]
  rfl

/-- 5. in the truncating branch the pinned helper always writes in place: the result is a window
    inside the input window, the heap is the old one with `...` over the last three bytes of that
    window, so it keeps its length and every byte outside the input window -/
theorem ellipsisB_write_in_window (h : Bytes) (s : Slice) (n : Int) (hv : s.Valid h)
    (hc : ((trimSpace (s.view h)).length : Int) > n ∧ 3 ≤ (trimSpace (s.view h)).length ∧ 3 < n) :
    ∃ w : Slice, (ellipsisB h s n).2 = .window w ∧ s.off ≤ w.off ∧ w.off + w.len ≤ s.off + s.len ∧
      3 ≤ w.len ∧ (ellipsisB h s n).1 = writeAt h (w.off + w.len - 3) dots ∧
      (ellipsisB h s n).1.length = h.length ∧
      (∀ i, i < s.off ∨ s.off + s.len ≤ i → (ellipsisB h s n).1[i]? = h[i]?) ∧
      (∀ j, j < 3 → (ellipsisB h s n).1[w.off + w.len - 3 + j]? = some 46) := by
  obtain ⟨t', ho, hol, hh, heq⟩ := ellipsisB_truncating h s n hv hc
  rw [heq]
  have hd : dots.length = 3 := rfl
  refine ⟨{ t' with len := t'.len + 3 }, rfl, ho, by simp only; omega, by simp only; omega, ?_, ?_, ?_, ?_⟩
  · simp only
    rw [← Nat.add_assoc, Nat.add_sub_cancel]
  · exact writeAt_length h _ dots (by omega)
  · intro i hi
    exact writeAt_getElem?_outside h _ dots (by omega) i (by omega)
  · intro j hj
    simp only
    rw [← Nat.add_assoc, Nat.add_sub_cancel, writeAt_getElem?_inside h _ dots (by omega) j (by omega)]
    have : j = 0 ∨ j = 1 ∨ j = 2 := by omega
    rcases this with rfl | rfl | rfl <;> rfl

/-! ### 4. witnesses of the deviation -/

/-- `"  hello world  "`, length 8: the caller's array reads `"  hello...rld  "` afterwards -/
theorem ellipsisB_writes_witness :
    ellipsisB [32,32,104,101,108,108,111,32,119,111,114,108,100,32,32] ⟨0, 15, 15⟩ 8 =
      ([32,32,104,101,108,108,111,46,46,46,114,108,100,32,32], .window ⟨2, 8, 13⟩) := by decide

theorem ellipsisB_heap_ne_witness :
    (ellipsisB [32,32,104,101,108,108,111,32,119,111,114,108,100,32,32] ⟨0, 15, 15⟩ 8).1 ≠
      [32,32,104,101,108,108,111,32,119,111,114,108,100,32,32] := by decide

/-- the repaired helper on the same input: same value, fresh array, heap untouched -/
theorem ellipsisBFixed_witness :
    ellipsisBFixed [32,32,104,101,108,108,111,32,119,111,114,108,100,32,32] ⟨0, 15, 15⟩ 8 =
      ([32,32,104,101,108,108,111,32,119,111,114,108,100,32,32],
       .fresh [104,101,108,108,111,46,46,46]) := by decide

/-- `"abcdefghijklmnopqrst"`, length 10: the array reads `"abcdefg...klmnopqrst"` afterwards -/
theorem ellipsisB_writes_witness₂ :
    ellipsisB [97,98,99,100,101,102,103,104,105,106,107,108,109,110,111,112,113,114,115,116]
        ⟨0, 20, 20⟩ 10 =
      ([97,98,99,100,101,102,103,46,46,46,107,108,109,110,111,112,113,114,115,116],
       .window ⟨0, 10, 20⟩) := by decide

theorem ellipsisB_heap_ne_witness₂ :
    (ellipsisB [97,98,99,100,101,102,103,104,105,106,107,108,109,110,111,112,113,114,115,116]
        ⟨0, 20, 20⟩ 10).1 ≠
      [97,98,99,100,101,102,103,104,105,106,107,108,109,110,111,112,113,114,115,116] := by decide

/-! non-vacuity: the side conditions of items 3 and 5 on concrete inputs -/

/-- `length = 3` keeps `str[0:0]`: `append` on nil allocates, no write although the text is cut -/
example : ellipsisB [32,97,98,99,100,32] ⟨0, 6, 6⟩ 3 = ([32,97,98,99,100,32], .fresh dots) := by
  decide

example : ¬ (((trimSpace (Slice.view [32,97,98,99,100,32] ⟨0, 6, 6⟩)).length : Int) > 3 ∧
    3 ≤ (trimSpace (Slice.view [32,97,98,99,100,32] ⟨0, 6, 6⟩)).length ∧ (3 : Int) < 3) := by decide

/-- not longer than `length`: the trimmed sub-window itself is returned -/
example : ellipsisB [32,97,98,99,100,32] ⟨0, 6, 6⟩ 4 = ([32,97,98,99,100,32], .window ⟨1, 4, 5⟩) := by
  decide

/-- the first witness is in the truncating branch and its input window is valid -/
example : Slice.Valid [32,32,104,101,108,108,111,32,119,111,114,108,100,32,32] ⟨0, 15, 15⟩ ∧
    ((trimSpace (Slice.view [32,32,104,101,108,108,111,32,119,111,114,108,100,32,32]
      ⟨0, 15, 15⟩)).length : Int) > 8 ∧
    3 ≤ (trimSpace (Slice.view [32,32,104,101,108,108,111,32,119,111,114,108,100,32,32]
      ⟨0, 15, 15⟩)).length ∧ (3 : Int) < 8 := by
  refine ⟨⟨by decide, by decide⟩, by decide, by decide, by decide⟩

/-- both flavours on a text with a multi-byte space rune (U+00A0) at each end and inside -/
example : ellipsis [0xC2,0xA0,97,98,0xC2,0xA0,99,100,101,102,0xC2,0xA0] 7 = [97,98,46,46,46] ∧
    (ellipsisB [0xC2,0xA0,97,98,0xC2,0xA0,99,100,101,102,0xC2,0xA0] ⟨0, 12, 12⟩ 7) =
      ([0xC2,0xA0,97,98,46,46,46,100,101,102,0xC2,0xA0], .window ⟨2, 5, 10⟩) := by decide


end Ro.Plugins.Text

/-
  RoProofs.Plugins.Text — the two `Ellipsis` helpers of RoModel.Plugins.Text:
  the byte flavour computes the same value as the string flavour, the repaired byte helper never
  writes to the caller's array, and the pinned one writes to it exactly in the truncating branch
  (always in place, inside the input window).
-/
import RoModel.Plugins.Text
namespace Ro.Plugins.Text

/-! ### space sequences -/

theorem spaceSeqs_pos : ∀ q ∈ spaceSeqs, 0 < q.length := by decide

theorem spacePrefix_spec (x : Bytes) :
    (spacePrefix x = 0 ∧ ∀ q ∈ spaceSeqs, ¬ q <+: x) ∨
    ∃ q ∈ spaceSeqs, q <+: x ∧ spacePrefix x = q.length := by
  unfold spacePrefix
  split
  · next q hq =>
    refine Or.inr ⟨q, List.mem_of_find?_eq_some hq, ?_, rfl⟩
    simpa using List.find?_some hq
  · next hnone =>
    refine Or.inl ⟨rfl, fun q hq hpre => ?_⟩
    rw [List.find?_eq_none] at hnone
    have := hnone q hq
    simp only [List.isPrefixOf_iff_prefix] at this
    exact this hpre

theorem spaceSuffix_spec (x : Bytes) :
    spaceSuffix x = 0 ∨ ∃ q ∈ spaceSeqs, q <:+ x ∧ spaceSuffix x = q.length := by
  unfold spaceSuffix
  split
  · next q hq =>
    refine Or.inr ⟨q, List.mem_of_find?_eq_some hq, ?_, rfl⟩
    have := List.find?_some hq
    simpa [List.isPrefixOf_iff_prefix, List.reverse_prefix] using this
  · exact Or.inl rfl

theorem spacePrefix_ne_zero_iff (x : Bytes) : spacePrefix x ≠ 0 ↔ ∃ q ∈ spaceSeqs, q <+: x := by
  rcases spacePrefix_spec x with ⟨h0, hn⟩ | ⟨q, hq, hpre, hl⟩
  · simp only [h0, ne_eq, not_true_eq_false, false_iff]
    rintro ⟨q, hq, hpre⟩
    exact hn q hq hpre
  · have := spaceSeqs_pos q hq
    exact ⟨fun _ => ⟨q, hq, hpre⟩, fun _ => by omega⟩

theorem spacePrefix_le (x : Bytes) : spacePrefix x ≤ x.length := by
  rcases spacePrefix_spec x with ⟨h0, _⟩ | ⟨q, _, hpre, hl⟩
  · omega
  · rw [hl]; exact hpre.length_le

theorem spaceSuffix_le (x : Bytes) : spaceSuffix x ≤ x.length := by
  rcases spaceSuffix_spec x with h0 | ⟨q, _, hsuf, hl⟩
  · omega
  · rw [hl]; exact hsuf.length_le

/-! ### `trimLeftN`, `trimRightN`, `trimSpace` -/

theorem trimLeftN_le (fuel : Nat) (x : Bytes) : trimLeftN fuel x ≤ x.length := by
  induction fuel generalizing x with
  | zero => simp [trimLeftN]
  | succ fuel ih =>
    simp only [trimLeftN]
    split
    · omega
    · have h1 := spacePrefix_le x
      have h2 := ih (x.drop (spacePrefix x))
      simp only [List.length_drop] at h2
      omega

theorem trimRightN_le (fuel : Nat) (x : Bytes) : trimRightN fuel x ≤ x.length := by
  induction fuel generalizing x with
  | zero => simp [trimRightN]
  | succ fuel ih =>
    simp only [trimRightN]
    split
    · omega
    · have h1 := spaceSuffix_le x
      have h2 := ih (x.take (x.length - spaceSuffix x))
      simp only [List.length_take] at h2
      omega

theorem take_length_take (m : Nat) (x : List α) : x.take (x.take m).length = x.take m := by
  rw [List.length_take]
  by_cases h : m ≤ x.length
  · rw [Nat.min_eq_left h]
  · rw [Nat.min_eq_right (by omega), List.take_length, List.take_of_length_le (by omega)]

/-- the trimmed string is the window of its own length starting after the removed prefix -/
theorem trimSpace_eq (v : Bytes) :
    trimSpace v = (v.drop (trimLeftN v.length v)).take (trimSpace v).length := by
  have : trimSpace v = (v.drop (trimLeftN v.length v)).take
      ((v.drop (trimLeftN v.length v)).length -
        trimRightN (v.drop (trimLeftN v.length v)).length (v.drop (trimLeftN v.length v))) := rfl
  rw [this, take_length_take]

theorem trimSpace_length_le (v : Bytes) :
    (trimSpace v).length + trimLeftN v.length v ≤ v.length := by
  have h1 := trimLeftN_le v.length v
  have h2 := congrArg List.length (trimSpace_eq v)
  simp only [List.length_take, List.length_drop] at h2
  omega

/-- after `trimLeft` no space rune is at the front -/
theorem spacePrefix_drop_trimLeftN (fuel : Nat) (x : Bytes) (hf : x.length ≤ fuel) :
    spacePrefix (x.drop (trimLeftN fuel x)) = 0 := by
  induction fuel generalizing x with
  | zero =>
    have : x = [] := List.eq_nil_of_length_eq_zero (by omega)
    subst this; rfl
  | succ fuel ih =>
    simp only [trimLeftN]
    split
    · next h0 => simpa using h0
    · next hne =>
      rw [← List.drop_drop]
      apply ih
      simp only [List.length_drop]
      omega

theorem spacePrefix_take_eq_zero (m : Nat) (x : Bytes) (h0 : spacePrefix x = 0) :
    spacePrefix (x.take m) = 0 := by
  apply Classical.byContradiction
  intro hne
  obtain ⟨q, hq, hpre⟩ := (spacePrefix_ne_zero_iff _).1 hne
  exact (spacePrefix_ne_zero_iff x).2 ⟨q, hq, hpre.trans (List.take_prefix m x)⟩ h0

/-- a string wholly consumed from the right by space runes starts with a space rune -/
theorem spacePrefix_ne_zero_of_trimRightN (fuel : Nat) (x : Bytes) (hx : x ≠ [])
    (hall : trimRightN fuel x = x.length) : spacePrefix x ≠ 0 := by
  induction fuel generalizing x with
  | zero =>
    simp only [trimRightN] at hall
    exact absurd (List.eq_nil_of_length_eq_zero hall.symm) hx
  | succ fuel ih =>
    simp only [trimRightN] at hall
    split at hall
    · exact absurd (List.eq_nil_of_length_eq_zero hall.symm) hx
    · next hne =>
      rcases spaceSuffix_spec x with h0 | ⟨q, hq, hsuf, hl⟩
      · exact absurd h0 hne
      · obtain ⟨y, rfl⟩ := hsuf
        have hy : (y ++ q).take ((y ++ q).length - spaceSuffix (y ++ q)) = y := by
          rw [hl]; simp
        rw [hy] at hall
        rw [hl, List.length_append] at hall
        have hall' : trimRightN fuel y = y.length := by omega
        rw [spacePrefix_ne_zero_iff]
        by_cases hyn : y = []
        · subst hyn
          exact ⟨q, hq, by simp⟩
        · obtain ⟨q', hq', hpre'⟩ := (spacePrefix_ne_zero_iff y).1 (ih y hyn hall')
          exact ⟨q', hq', hpre'.trans (List.prefix_append y q)⟩

/-- trimming a non-empty string that does not start with a space rune leaves something -/
theorem trimSpace_ne_nil (x : Bytes) (hx : x ≠ []) (h0 : spacePrefix x = 0) : trimSpace x ≠ [] := by
  have hl : trimLeftN x.length x = 0 := by
    cases hlen : x.length with
    | zero => rfl
    | succ k => simp [trimLeftN, h0]
  have hE : trimSpace x = x.take (x.length - trimRightN x.length x) := by
    have hT : trimLeft x = x := by unfold trimLeft; rw [hl]; rfl
    show trimRight (trimLeft x) = _
    rw [hT]; rfl
  have hle := trimRightN_le x.length x
  have hlt : trimRightN x.length x ≠ x.length := fun he =>
    spacePrefix_ne_zero_of_trimRightN _ x hx he h0
  have hpos : 0 < x.length := List.length_pos_iff.2 hx
  intro hnil
  have := congrArg List.length hnil
  rw [hE, List.length_take] at this
  simp only [List.length_nil] at this
  omega

/-- a non-empty prefix of a trimmed string does not trim to nothing -/
theorem trimSpace_take_trimSpace_ne_nil (v : Bytes) (k : Nat) (hk : 0 < k) (hv : trimSpace v ≠ []) :
    trimSpace ((trimSpace v).take k) ≠ [] := by
  apply trimSpace_ne_nil
  · intro hnil
    have := congrArg List.length hnil
    have hpos : 0 < (trimSpace v).length := List.length_pos_iff.2 hv
    simp only [List.length_take, List.length_nil] at this
    omega
  · apply spacePrefix_take_eq_zero
    rw [trimSpace_eq v]
    apply spacePrefix_take_eq_zero
    exact spacePrefix_drop_trimLeftN _ _ (Nat.le_refl _)

/-! ### windows -/

theorem Slice.length_view_le (h : Bytes) (s : Slice) : (s.view h).length ≤ s.len := by
  simp only [Slice.view, List.length_take]; omega

theorem Slice.view_prefix (h : Bytes) (s : Slice) (k : Nat) (hk : k ≤ s.len) :
    (s.prefix k).view h = (s.view h).take k := by
  simp only [Slice.view, Slice.prefix, List.take_take, Nat.min_eq_left hk]

/-- the window `bytes.TrimSpace` returns shows the trimmed value -/
theorem view_trimWindow (h : Bytes) (s : Slice) (c : Nat) :
    Slice.view h { off := s.off + trimLeftN (s.view h).length (s.view h),
                   len := (trimSpace (s.view h)).length, cap := c } = trimSpace (s.view h) := by
  have hle := trimSpace_length_le (s.view h)
  have hvl := Slice.length_view_le h s
  conv => rhs; rw [trimSpace_eq]
  generalize (trimSpace (s.view h)).length = tl at *
  generalize trimLeftN (s.view h).length (s.view h) = l at *
  simp only [Slice.view, List.drop_take, List.drop_drop, List.take_take]
  rw [Nat.min_eq_left (by omega)]

theorem trimSpaceS_view (h : Bytes) (s : Slice) :
    (trimSpaceS h s).view h = trimSpace (s.view h) := by
  unfold trimSpaceS
  simp only
  split
  · next h0 => exact (List.eq_nil_of_length_eq_zero h0).symm
  · exact view_trimWindow h s _

theorem trimSpaceS_eq_nil (h : Bytes) (s : Slice) (h0 : trimSpace (s.view h) = []) :
    trimSpaceS h s = .nil := by
  unfold trimSpaceS
  simp [h0]

theorem trimSpaceS_eq_window (h : Bytes) (s : Slice) (hne : trimSpace (s.view h) ≠ []) :
    trimSpaceS h s = .window { off := s.off + trimLeftN (s.view h).length (s.view h),
                               len := (trimSpace (s.view h)).length,
                               cap := s.cap - trimLeftN (s.view h).length (s.view h) } := by
  unfold trimSpaceS
  simp [hne]

/-- what `bytes.TrimSpace` returns when it is not nil: a valid sub-window with the same end of
    capacity -/
theorem trimSpaceS_window (h : Bytes) (s t : Slice) (hv : s.Valid h)
    (ht : trimSpaceS h s = .window t) :
    t.Valid h ∧ s.off ≤ t.off ∧ t.off + t.len ≤ s.off + s.len ∧ t.off + t.cap = s.off + s.cap ∧
    t.len = (trimSpace (s.view h)).length ∧ t.len ≠ 0 ∧ t.view h = trimSpace (s.view h) := by
  have hle := trimSpace_length_le (s.view h)
  have hvl := Slice.length_view_le h s
  obtain ⟨hv1, hv2⟩ := hv
  have hview := trimSpaceS_view h s
  rw [ht] at hview
  unfold trimSpaceS at ht
  simp only at ht
  split at ht
  · cases ht
  · next hne =>
    injection ht with ht
    subst ht
    refine ⟨⟨?_, ?_⟩, ?_, ?_, ?_, rfl, hne, hview⟩ <;> simp only <;> omega

/-! ### the helpers -/

theorem trimSpaceS_ne_fresh (h : Bytes) (s : Slice) (bs : Bytes) : trimSpaceS h s ≠ .fresh bs := by
  unfold trimSpaceS
  simp only
  split <;> intro hc <;> cases hc

/-- value of the helpers when `bytes.TrimSpace` leaves nothing -/
theorem ellipsis_of_nil (v : Bytes) (n : Int) (h0 : trimSpace v = []) :
    ellipsis v n = if (0 : Int) > n then dots else [] := by
  simp only [ellipsis, h0, List.length_nil, Int.natCast_zero]
  split
  · next hn => rw [if_pos (Or.inr (by omega))]
  · rfl

/-- the kept prefix `str[0:length-3]` of a valid trimmed window `t`, and what trimming it gives -/
theorem prefix_facts (h : Bytes) (t : Slice) (n : Int) (ht : t.Valid h) (hgt : (t.len : Int) > n) :
    (t.prefix (n - 3).toNat).Valid h ∧
    (trimSpaceS h (t.prefix (n - 3).toNat)).view h = trimSpace ((t.view h).take (n - 3).toNat) := by
  have hk : (n - 3).toNat ≤ t.len := by omega
  refine ⟨⟨?_, ht.2⟩, ?_⟩
  · have := ht.1
    simp only [Slice.prefix]; omega
  · rw [trimSpaceS_view, Slice.view_prefix h t _ hk]

/-- the byte helper returns the text the string helper computes -/
theorem ellipsisB_view (h : Bytes) (s : Slice) (n : Int) (hv : s.Valid h) :
    (ellipsisB h s n).2.view h = ellipsis (s.view h) n := by
  cases hts : trimSpaceS h s with
  | fresh bs => exact absurd hts (trimSpaceS_ne_fresh h s bs)
  | nil =>
    have h0 : trimSpace (s.view h) = [] := by rw [← trimSpaceS_view, hts]; rfl
    rw [ellipsis_of_nil _ _ h0]
    simp only [ellipsisB, hts]
    split <;> rfl
  | window t =>
    obtain ⟨htv, -, -, -, hlen, -, hview⟩ := trimSpaceS_window h s t hv hts
    simp only [ellipsisB, hts, ellipsis, ← hlen]
    split
    · next hgt =>
      split
      · rfl
      · obtain ⟨-, hpview⟩ := prefix_facts h t n htv hgt
        show (trimSpaceS h (t.prefix (n - 3).toNat)).view h ++ dots = _
        rw [hpview, hview]
    · exact hview

/-- the byte helper never writes to the caller's array: every heap, window, length -/
theorem ellipsisB_heap (h : Bytes) (s : Slice) (n : Int) : (ellipsisB h s n).1 = h := by
  unfold ellipsisB
  split
  · split
    · split <;> rfl
    · rfl
  · split <;> rfl

/-- the sub-window returned when nothing is cut lies inside the input window -/
theorem ellipsisB_window_inside (h : Bytes) (s w : Slice) (n : Int) (hv : s.Valid h)
    (hw : (ellipsisB h s n).2 = .window w) : w.Valid h ∧ s.off ≤ w.off ∧ w.off + w.len ≤ s.off + s.len := by
  cases hts : trimSpaceS h s with
  | fresh bs => exact absurd hts (trimSpaceS_ne_fresh h s bs)
  | nil =>
    simp only [ellipsisB, hts] at hw
    split at hw <;> cases hw
  | window t =>
    obtain ⟨htv, hoff, hin, -, -, -, -⟩ := trimSpaceS_window h s t hv hts
    simp only [ellipsisB, hts] at hw
    split at hw
    · split at hw <;> cases hw
    · cases hw
      exact ⟨htv, hoff, hin⟩

-- non-vacuity
/-- "  hello world  ", length 8: a fresh "hello...", the caller's array is as it was -/
example : ellipsisB [32,32,104,101,108,108,111,32,119,111,114,108,100,32,32] ⟨0, 15, 15⟩ 8
    = ([32,32,104,101,108,108,111,32,119,111,114,108,100,32,32], .fresh [104,101,108,108,111,46,46,46]) := by decide

/-- `length = 3` keeps `str[0:0]`: only the dots -/
example : ellipsisB [32,97,98,99,100,32] ⟨0, 6, 6⟩ 3 = ([32,97,98,99,100,32], .fresh dots) := by decide

/-- not longer than `length`: the trimmed sub-window itself is returned -/
example : ellipsisB [32,97,98,99,100,32] ⟨0, 6, 6⟩ 4 = ([32,97,98,99,100,32], .window ⟨1, 4, 5⟩) := by decide

/-- both flavours on a text with a multi-byte space rune (U+00A0) at each end and inside -/
example : ellipsis [0xC2,0xA0,97,98,0xC2,0xA0,99,100,101,102,0xC2,0xA0] 7 = [97,98,46,46,46] ∧
    (ellipsisB [0xC2,0xA0,97,98,0xC2,0xA0,99,100,101,102,0xC2,0xA0] ⟨0, 12, 12⟩ 7) =
      ([0xC2,0xA0,97,98,0xC2,0xA0,99,100,101,102,0xC2,0xA0], .fresh [97,98,46,46,46]) := by decide

end Ro.Plugins.Text

import RoProofs.Gate

import RoProofs.Gate
import RoProofs.Script
import RoProofs.Ops.Basic

import RoProofs.Gate
import RoProofs.Script
import RoProofs.Ops.Basic
import RoProofs.Ops.FilterSpecs
import RoProofs.Ops.TransformSpecs
import RoProofs.Ops.AggregateSpecs
import RoProofs.MultiB.Core
import RoProofs.MultiB.BufferWhen

import RoProofs.Gate
import RoProofs.Script

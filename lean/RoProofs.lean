import RoProofs.Gate
import RoProofs.Script
import RoProofs.Ops.Basic
import RoProofs.Ops.FilterSpecs
import RoProofs.Ops.TransformSpecs
import RoProofs.Ops.AggregateSpecs
import RoProofs.CtxFlow
import RoProofs.Chain
import RoProofs.Steps
import RoProofs.Release
import RoProofs.Ops.CtxSpecs
import RoProofs.TimedBasic
import RoProofs.TimedDelay
import RoProofs.TimedPeriodic
import RoProofs.TimedRange
import RoProofs.TimedTimeout
import RoProofs.TimedWindow
import RoProofs.TimedAccept
import RoProofs.Plugins.Base64
import RoProofs.Plugins.Strconv
import RoProofs.Plugins.Text
import RoProofs.Plugins.Sort
import RoProofs.Plugins.Reader
import RoProofs.Plugins.Lift
import RoProofs.Resub
import RoProofs.ResubRetry
import RoProofs.ResubLoops
import RoProofs.Subjects
import RoProofs.SubjectsPrim
import RoProofs.SubjectsMulti
import RoProofs.SubjectsView
import RoProofs.SubjectsSpec
import RoProofs.SubjectsKinds
import RoProofs.SubjectsUnicast
import RoProofs.SubjectsUnicastSpec
import RoProofs.Atomic
import RoProofs.SubjectsMicro
import RoProofs.RateLimit
import RoProofs.RateLimitTime
import RoProofs.RateLimitUlule
import RoProofs.RateLimitAccept
import RoProofs.Chan.Inv
import RoProofs.Chan.Prod
import RoProofs.Chan.Cons
import RoProofs.ChanFrom
import RoProofs.ChanShape
import RoProofs.MultiCore
import RoProofs.MultiUntil
import RoProofs.MultiSample
import RoProofs.MultiRace
import RoProofs.MultiMerge
import RoProofs.MultiOrder
import RoProofs.MultiMergeAll
import RoProofs.OpsGen
import RoProofs.Ops.MoreSpecs
import RoProofs.Ops.MoreCtx
import RoProofs.Ops.CreateSpecs
import RoProofs.Ops.CreateCtx
-- (C07 being adapted) import RoProofs.Fault.Sim
-- (C07 being adapted) import RoProofs.Fault.Run
-- (C07 being adapted) import RoProofs.Fault.Next
-- (C07 being adapted) import RoProofs.Fault.NoEscape
-- (C07 being adapted) import RoProofs.Fault.Account
-- (C07 being adapted) import RoProofs.Fault.Kernel
-- (C07 being adapted) import RoProofs.Fault.Grammar
-- (C07 being adapted) import RoProofs.Fault.SubscribeFn

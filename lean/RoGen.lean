import RoGen.Catalogue
import RoGen.FaultFacts

import RoGen.Catalogue
import RoGen.Prom

import RoGen.Catalogue
import RoGen.Plugins
import RoGen.SubjectLocks
import RoGen.RateLimit
import RoGen.ChanShape
import RoGen.OpsGen
import RoGen.Delegation
import RoGen.Pipe

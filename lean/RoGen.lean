import RoGen.Catalogue
import RoGen.Plugins
import RoGen.SubjectLocks

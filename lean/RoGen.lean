import RoGen.Catalogue
import RoGen.OpsGen

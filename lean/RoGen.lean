import RoGen.Catalogue
import RoGen.Delegation
import RoGen.Pipe

import RoGen.Catalogue
import RoGen.Locksets

import RoGen.Catalogue
import RoGen.SubjectLocks

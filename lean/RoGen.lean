import RoGen.Catalogue
import RoGen.RateLimit

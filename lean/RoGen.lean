import RoGen.Catalogue
import RoGen.Kernel

import RoGen.Catalogue
import RoGen.Plugins

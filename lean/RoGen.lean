import RoGen.Catalogue
import RoGen.ChanShape

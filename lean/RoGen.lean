import RoGen.Catalogue

/-
  C03 / C06 / C14 (teardown from inside a delivery never waits for the emitting goroutine itself).

  Statement: for every operator and every emission site, closing the subscription from inside the
  delivery (which runs the operator's teardown and finalizers synchronously on the emitting goroutine)
  returns — the teardown never waits for a lock the emission holds.

  Model: `teardownInside held td` (RoModel/EmitLockFacts.lean).  Theorem `teardownInside_returns_iff`:
  it returns iff no lock the teardown takes is held at the emission — for any lock sets.
  Tie (F): the emission sites with their held locks and the teardown locks of every operator are
  regenerated from operator_*.go on every run (go/extract/emitlock.go, on top of the lock-region and
  context analysis of locksets.go); `emit_table_ok` is decided by the kernel on the regenerated rows,
  `no_self_deadlock` lifts it to every regenerated emission site.
-/
import RoModel.EmitLockFacts
import RoGen.EmitLocks
namespace Ro.C03lock
open Ro.EmitLockFacts

theorem teardownInside_returns_iff (held td : List Nat) :
    teardownInside held td = .returns ↔ ∀ l ∈ td, l ∉ held := by
  induction td with
  | nil => simp [teardownInside]
  | cons l rest ih =>
    unfold teardownInside
    have hc : held.contains l = true ↔ l ∈ held := by simp
    by_cases h : l ∈ held
    · simp [h]
    · simp [h, ih]

/-- the witness direction: a shared lock makes the teardown wait for its own goroutine -/
theorem teardownInside_stuck (held td : List Nat) (l : Nat) (hl : l ∈ td) (hh : l ∈ held) :
    ∃ k, teardownInside held td = .stuck k := by
  cases h : teardownInside held td with
  | returns => exact absurd hh ((teardownInside_returns_iff held td).mp h l hl)
  | stuck k => exact ⟨k, rfl⟩

theorem emitOk_sound (td : List TdRow) (e : EmitRow) (h : emitOk td e = true) :
    teardownInside e.held (tdLocksOf td e.op) = .returns := by
  rw [teardownInside_returns_iff]
  intro l hl hh
  unfold emitOk at h
  rw [List.all_eq_true] at h
  have := h l hh
  simp [hl] at this

/-- decided by the kernel on the rows regenerated from the repository under check on this run -/
theorem emit_table_ok : tableOk RoGen.EmitLocks.emits RoGen.EmitLocks.teardown = true := by decide

/-- **no emission site of any operator can make a teardown that runs inside its delivery wait for the
    emitting goroutine itself** -/
theorem no_self_deadlock : ∀ e ∈ RoGen.EmitLocks.emits,
    teardownInside e.held (tdLocksOf RoGen.EmitLocks.teardown e.op) = .returns := by
  intro e he
  apply emitOk_sound
  have h := emit_table_ok
  unfold tableOk at h
  rw [List.all_eq_true] at h
  exact h e he

/-- the analysis saw the operators it is about: the lock-holding emission sites of the pinned tree and the
    operators whose teardown takes a lock are not empty (a translator that stops recognising locks or
    teardowns would make `emit_table_ok` vacuous) -/
theorem table_not_vacuous : RoGen.EmitLocks.emits ≠ [] ∧ 6 ≤ RoGen.EmitLocks.teardown.length ∧ 200 ≤ RoGen.EmitLocks.emitsWithoutLock := by decide

/-- non-vacuity of the model: BufferWithTimeOrCount emitting under its spin lock (the change of seeded
    C03-C) against its own teardown -/
example : teardownInside [20] (tdLocksOf [{ op := "BufferWithTimeOrCount", locks := [20] }] "BufferWithTimeOrCount") = .stuck 20 := by decide
example : emitOk [{ op := "BufferWithTimeOrCount", locks := [20] }]
    { op := "BufferWithTimeOrCount", file := "operator_transformations.go", line := 503, kind := "next", ctx := "sourceCb", held := [20] } = false := by decide

end Ro.C03lock

#print axioms Ro.C03lock.teardownInside_returns_iff
#print axioms Ro.C03lock.teardownInside_stuck
#print axioms Ro.C03lock.emitOk_sound
#print axioms Ro.C03lock.emit_table_ok
#print axioms Ro.C03lock.no_self_deadlock
#print axioms Ro.C03lock.table_not_vacuous

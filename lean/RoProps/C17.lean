/-
  C17 — bridges to slices, maps and channels are exact and close exactly once.

  * ToSlice / ToMap / Materialize∘Dematerialize: machines, proved in RoProofs/Ops/TransformSpecs.lean
    (`toSlice_spec`, `toMap_spec`, `materialize_dematerialize_id`), restated here.
  * ToChannel (operator_sink.go:118-181) as the `Pipe` transition system of RoModel/Chan.lean with
    `toChan := true`: for every capacity, source mode, raw script and schedule of the goroutine that
    feeds the channel, the reader of the channel and the thread that hands the channel out / later
    unsubscribes — what the reader gets is a prefix of the materialised gated script (in order,
    nothing missing, terminal last), all of it once both ends are idle; `close(ch)` runs at most
    once and exactly once as soon as one `closeChan()` has returned (after the terminal or in the
    teardown); a send that meets the closed channel ends as one `OnUnhandledError`, never as a
    panic in the caller.
    The hand-out of the channel: never refused for capacity 0, never refused when it precedes the
    goroutine (what the 1 ms sleep is for); for every capacity ≥ 1 the schedule "goroutine first"
    makes an empty source complete the destination before the hand-out, which is then refused
    (`toChannel_handout_race_witness` — the full statement "the destination always receives the
    channel" is false in the model; it is a finding on the real code only when the park point
    reproduces it, see docs/C17.md).
  * FromChannel (operator_creation.go:340-364) as the `From` system: exactness, no delivery after
    unsubscription, `close(done)` at most once, the goroutine is never stuck in a receive once
    `done` is closed.
  * Collect (observable.go:337-362): values in order and the error; the same through ObserveOn.
-/
import RoProofs.Ops.TransformSpecs
import RoProofs.Chan
import RoProofs.ChanFrom
import RoProofs.ChanShape
namespace Ro.C17
open Ro Ro.Chan

/-! ### slices, maps, Materialize ; Dematerialize (proved with the operator machines) -/

theorem toSlice {α : Type} (mode : SrcMode) (sub : Ctx) (raw : List (Notif α)) :
    (runOp (toSliceM (α := α)) mode sub raw).out = Spec.toSlice (values raw) (ending raw) :=
  toSlice_spec mode sub raw

theorem toMap {α β κ : Type} [DecidableEq κ] (kv : Ctx → α → Nat → κ × β) (mode : SrcMode) (sub : Ctx)
    (raw : List (Notif α)) :
    (runOp (toMapM kv) mode sub raw).out = Spec.toMap kv (values raw) (ending raw) :=
  toMap_spec kv mode sub raw

/-- identity on every legal stream; on an illegal one, what a subscriber lets through -/
theorem materialize_dematerialize {α : Type} (mode : SrcMode) (sub : Ctx) (raw : List (Notif α)) :
    (runOp ((materializeM (α := α)).seq dematerializeM) mode sub raw).out = gate raw :=
  materialize_dematerialize_id mode sub raw

/-! ### ToChannel -/

/-- the configuration of ToChannel with capacity `cap` over a hot / synchronous source -/
abbrev toChan (cap : Nat) (hot : Bool) : Cfg := { cap := cap, toChan := true, hot := hot }

/-- every capacity, source mode, raw script and schedule: the reader has seen a prefix of the
    materialised sequence — in order, none missing, none invented — and nothing after a terminal -/
theorem toChannel_exact {α : Type} (cap : Nat) (hot : Bool) (raw : List (Notif α)) (sched : List Tid) :
    let s := run (toChan cap hot) (init (toChan cap hot) raw) sched
    (∃ t, s.got ++ t = gate raw) ∧
    (∀ l r x, s.got = l ++ x :: r → x.isTerminal = true → r = []) :=
  ⟨got_prefix (inv_run _ raw sched), got_terminal_last (inv_run _ raw sched)⟩

/-- … and the whole of it once the channel has been handed out, nobody has unsubscribed and both
    goroutines have nothing left to do (no deadlock, no loss) -/
theorem toChannel_complete {α : Type} (cap : Nat) (hot : Bool) (raw : List (Notif α)) (sched : List Tid) :
    let s := run (toChan cap hot) (init (toChan cap hot) raw) sched
    early s = true → s.handed = true → step (toChan cap hot) s .prod = none → step (toChan cap hot) s .cons = none →
    s.got = gate raw := fun he hh hp hc =>
  (pipe_complete (inv_run _ raw sched) he (fun _ => hh) hp hc).1

/-- `close(ch)` runs at most once; exactly once as soon as one `closeChan()` has returned — the one
    after the terminal notification or the teardown's — and the channel is closed from then on -/
theorem toChannel_close_once {α : Type} (cap : Nat) (hot : Bool) (raw : List (Notif α)) (sched : List Tid) :
    let s := run (toChan cap hot) (init (toChan cap hot) raw) sched
    s.closes ≤ 1 ∧ (0 < s.stops → s.closes = 1 ∧ s.closed = true) ∧ (s.closed = true ↔ s.closes = 1) :=
  ⟨closes_le_one (inv_run _ raw sched), closes_eq_one_of_stops (inv_run _ raw sched),
   closed_iff_closes (inv_run _ raw sched)⟩

/-- the two `closeChan()` calls are always reached: the goroutine is not blocked between the
    terminal and `closeChan()`, the teardown never blocks, and each leaves `stops > 0` -/
theorem toChannel_close_reached {α : Type} (cfg : Cfg) (s : St α) :
    (s.ppc = .stop → ∃ s', step cfg s .prod = some s' ∧ 0 < s'.stops) ∧
    (s.tpc = .td2 → ∃ s', step cfg s .ctl = some s' ∧ 0 < s'.stops) := by
  refine ⟨fun h => ?_, fun h => ?_⟩
  · have := (stop_enabled cfg s).1 h
    obtain ⟨s', hs⟩ := Option.isSome_iff_exists.mp this
    exact ⟨s', hs, stops_pos_after_stop cfg s s' h hs⟩
  · have := (stop_enabled cfg s).2.2 h
    obtain ⟨s', hs⟩ := Option.isSome_iff_exists.mp this
    exact ⟨s', hs, (stops_pos_after_teardown cfg s s' h hs).1⟩

/-- the release survives a panicking upstream teardown (repo fix 694a874: `defer closeChan()` before
    `subscriptions.Unsubscribe()`): once `Unsubscribe()` has passed its CAS the channel is closed
    exactly once two steps later, for every configuration — with `Cfg.upPanic` the panic reaches the
    caller of `Unsubscribe()` only after the close -/
theorem toChannel_teardown_releases {α : Type} (cap : Nat) (hot panics : Bool) (raw : List (Notif α)) (sched : List Tid) :
    let cfg : Cfg := { cap := cap, toChan := true, hot := hot, upPanic := panics }
    let s := run cfg (init cfg raw) sched
    s.tpc = .td1 → ∃ s1 s2, step cfg s .ctl = some s1 ∧ step cfg s1 .ctl = some s2 ∧ s2.tpc = .done ∧
      s2.closed = true ∧ s2.closes = 1 ∧ (panics = true → hot = true → s.upOpen = true → s2.raised = true) :=
  fun ht => teardown_releases (inv_run _ raw sched) ht

/-- a send racing the close: the panic "send on closed channel" is raised inside the observer
    callback; `observerImpl.try*` turn it into exactly one `OnUnhandledError(ro.Observer: …)`, it
    never reaches the caller of Next/Error/Complete (the source, or the harness) -/
theorem toChannel_send_on_closed {α : Type} (x : Notif α) :
    (failedSend x).escaped = none ∧ (failedSend x).unhandled = [.observer sendOnClosed] := failed_send x

theorem observer_never_lets_a_panic_out (onNext onComplete : CbRes) (onError : Err → CbRes) (e : Err) :
    (tryNext onNext onError).escaped = none ∧ (tryError onError e).escaped = none ∧
    (tryComplete onComplete).escaped = none := try_no_escape onNext onComplete onError e

/-- sends fail only after somebody called `Unsubscribe()`; with a registered (hot) source at most
    the one notification that was already inside its callback -/
theorem toChannel_failed_sends {α : Type} (cap : Nat) (hot : Bool) (raw : List (Notif α)) (sched : List Tid) :
    let s := run (toChan cap hot) (init (toChan cap hot) raw) sched
    (early s = true → s.fails = []) ∧ (hot = true → s.fails.length ≤ 1) :=
  ⟨(inv_run _ raw sched).earlyFails, fun h => fails_le_one_hot (inv_run (toChan cap hot) raw sched) h⟩

/-- the hand-out, partial statement: the destination receives the channel under every schedule
    when the channel is unbuffered, and under every schedule that starts with the hand-out -/
theorem toChannel_handout_partial {α : Type} (hot : Bool) (raw : List (Notif α)) (sched : List Tid) :
    (run (toChan 0 hot) (init (toChan 0 hot) raw) sched).handDropped = false ∧
    ∀ cap, (run (toChan cap hot) (init (toChan cap hot) raw) (.ctl :: sched)).handed = true :=
  ⟨handout_unbuffered hot raw sched, fun cap => handout_first cap hot raw sched⟩

/- full statement (false in the model for capacity ≥ 1, see the witness):
   ∀ cap hot raw sched, (run (toChan cap hot) (init (toChan cap hot) raw) sched).handDropped = false -/

/-- the empty-source race: for every capacity ≥ 1 the schedule "goroutine first, then hand-out"
    ends with the destination completed, the channel closed once and the hand-out refused -/
theorem toChannel_handout_race_witness (c : Nat) (hc : 0 < c) (ctx : Ctx) :
    let s := run (toChan c false) (init (toChan c false) [Notif.complete (α := Int) ctx]) [.prod, .prod, .prod, .prod, .ctl]
    s.handDropped = true ∧ s.handed = false ∧ s.destCompleted = true ∧ s.closes = 1 :=
  handout_race_witness (α := Int) c hc ctx

/-! ### FromChannel -/

/-- every capacity, input, closing behaviour and schedule: the trace is a prefix of
    "every value sent, in order, then Complete" -/
theorem fromChannel_prefix {α : Type} (cap : Nat) (sub : Ctx) (inp : List α) (wc : Bool) (sched : List Tid) :
    ∃ t, (frun (finit cap sub inp wc) sched).out ++ t = inp.map (Notif.next sub) ++ [.complete sub] := by
  have h := from_prefix (finv_run cap sub inp wc sched)
  have hs : (frun (finit cap sub inp wc) sched).sub = sub := by
    have : ∀ (sched : List Tid) (s : FSt α), (frun s sched).sub = s.sub := by
      intro sched
      induction sched with
      | nil => intro s; rfl
      | cons t ts ih =>
        intro s
        show (frun (fnext s t) ts).sub = s.sub
        rw [ih]
        unfold fnext
        cases hst : fstep s t with
        | none => rfl
        | some s' => exact fstep_sub t hst
    exact this sched _
  rw [hs] at h
  exact h

/-- exactness: the user closes the channel, nobody unsubscribes, nothing is left to do ⇒ every
    value, in order, then Complete -/
theorem fromChannel_exact {α : Type} {inp : List α} {s : FSt α} (h : FInv inp s) (ht : s.tpc = .cas)
    (hw : s.willClose = true) (hp : fstep s .prod = none) (hc : fstep s .cons = none) :
    s.out = inp.map (Notif.next s.sub) ++ [.complete s.sub] := from_exact h ht hw hp hc

/-- at every moment before any unsubscription: exactly the values handled so far, in order -/
theorem fromChannel_values {α : Type} (cap : Nat) (sub : Ctx) (inp : List α) (wc : Bool) (sched : List Tid) :
    let s := frun (finit cap sub inp wc) sched
    s.tpc = .cas → s.out = s.handled.map (Notif.next s.sub) ++ (if s.downOpen then [] else [.complete s.sub]) :=
  fun ht => from_values (finv_run cap sub inp wc sched) ht

/-- after unsubscription (or completion) nothing more is delivered, whatever the goroutine still
    reads from the channel before its select takes the `done` branch -/
theorem fromChannel_cut {α : Type} (s : FSt α) (hd : s.downOpen = false) (sched : List Tid) :
    (frun s sched).out = s.out := from_frozen_run sched s hd

/-- `close(done)` runs at most once -/
theorem fromChannel_done_once {α : Type} (cap : Nat) (sub : Ctx) (inp : List α) (wc : Bool) (sched : List Tid) :
    (frun (finit cap sub inp wc) sched).doneCloses ≤ 1 := from_done_once (finv_run cap sub inp wc sched)

/-- stops reading: with `done` closed the goroutine can leave at its select whatever the state of
    the input channel (abandoned, empty, full); the unsubscribing thread is never blocked -/
theorem fromChannel_stops_reading {α : Type} (s : FSt α) :
    (s.doneClosed = true → s.cpc = .sel → (fstep s .quit).isSome) ∧ (s.tpc ≠ .done → (fstep s .ctl).isSome) :=
  ⟨from_quit_enabled s, from_ctl_enabled s⟩

/-! ### Collect -/

theorem collect_exact {α : Type} (raw : List (Notif α)) :
    collect raw = match ending raw with
      | .never => none
      | .error c e => some { vals := (values raw).map (·.2), ctx := some c, err := some e }
      | .complete c => some { vals := (values raw).map (·.2), ctx := some c, err := none } := collect_spec raw

/-! ### the source is written the way the model reads it (regenerated on every run) -/

/-- the subscribe closures of ToChannel, detachOn and FromChannel, as translated by go/extract on
    this run, are the statements the transition systems were written from (RoProofs/ChanShape.lean) -/
theorem chan_shapes : RoGen.ChanShape.table = Chan.expectedShapes := Chan.chan_shapes_ok

/-! ### non-vacuity -/

-- a reachable ToChannel state in which the reader has everything and the channel was closed once
example :
    let s := run (toChan 1 false) (init (toChan 1 false) [Notif.next {} (1 : Int), .complete {}, .next {} 9]) [.ctl, .prod, .prod, .cons, .cons, .prod, .prod, .prod, .cons, .cons, .cons]
    s.got = [.next {} 1, .complete {}] ∧ s.closes = 1 ∧ s.stops = 1 ∧ early s = true ∧ s.handed = true := by decide
-- unsubscription while the producer is blocked on a full channel: the send fails, nothing escapes
example :
    let s := run (toChan 1 true) (init (toChan 1 true) [Notif.next {} (1 : Int), .next {} 2, .next {} 3]) [.ctl, .prod, .prod, .prod, .prod, .ctl, .ctl, .ctl, .prod, .prod]
    s.fails = [.next {} 2] ∧ s.closes = 1 ∧ s.dropsUp = [.next {} 3] := by decide
-- FromChannel: two values through an unbuffered channel, then close
example :
    let s := frun (finit 0 {} [(1 : Int), 2] true) [.prod, .prod, .cons, .prod, .prod, .cons, .prod, .cons, .cons, .cons, .cons]
    s.out = [.next {} 1, .next {} 2, .complete {}] ∧ s.doneCloses = 1 := by decide
example : collect [Notif.next {} (1 : Int), .error {} (.user 3), .next {} 2] =
    some { vals := [1], ctx := some {}, err := some (.user 3) } := by decide

end Ro.C17

#print axioms Ro.C17.toSlice
#print axioms Ro.C17.toMap
#print axioms Ro.C17.materialize_dematerialize
#print axioms Ro.C17.toChannel_exact
#print axioms Ro.C17.toChannel_complete
#print axioms Ro.C17.toChannel_close_once
#print axioms Ro.C17.toChannel_close_reached
#print axioms Ro.C17.toChannel_teardown_releases
#print axioms Ro.C17.toChannel_send_on_closed
#print axioms Ro.C17.observer_never_lets_a_panic_out
#print axioms Ro.C17.toChannel_failed_sends
#print axioms Ro.C17.toChannel_handout_partial
#print axioms Ro.C17.toChannel_handout_race_witness
#print axioms Ro.C17.fromChannel_prefix
#print axioms Ro.C17.fromChannel_exact
#print axioms Ro.C17.fromChannel_values
#print axioms Ro.C17.fromChannel_cut
#print axioms Ro.C17.fromChannel_done_once
#print axioms Ro.C17.fromChannel_stops_reading
#print axioms Ro.C17.collect_exact
#print axioms Ro.C17.chan_shapes

/-
  C06, operator-level half — Unsubscribe cuts delivery through every operator and chain, from
  outside, from inside the observer's callback, or from another goroutine while a callback is in
  progress; Collect returns exactly what was delivered, exactly when the stream has terminated.
  (The subscriber/subscription kernel — status CAS, IsClosed, Wait under every schedule — is
  RoProps/C06.lean; this file is about what that kernel does *around an operator*.)

  Model: RoModel/CutIn.lean §1-§2 over the machines of RoModel/Machine.lean (a chain is a machine:
  `Machine.seq`, so every statement holds for chains). Tie: go/harness/cutin.go, collect.go against
  RoModel/Drivers/Cut.lean on every catalogue operator and random chains.
-/
import RoProofs.CutIn
import RoModel.Ops.Aggregate
namespace Ro.C06op
open Ro

variable {σ α β : Type}

/-- Unsubscribe called by the observer during its k-th callback (or by another goroutine while
    that callback is in progress): the observer receives exactly the first k notifications of the
    undisturbed run — no notification whose emission began afterwards is delivered. -/
theorem cut_in_out (m : Machine σ α β) (sub : Ctx) (raw : List (Notif α)) {k : Nat} (hk : 0 < k) :
    (runOpCutIn m sub raw k).out = ((runOp m .hot sub raw).out).take k :=
  runOpCutIn_out m sub raw hk

/-- … as soon as k notifications have been delivered the subscription is closed and the source
    released (before the callback returns: the flags are those of the state right after it) -/
theorem cut_in_released (m : Machine σ α β) (sub : Ctx) (raw : List (Notif α)) {k : Nat} (hk : 0 < k)
    (hs : m.subscribes = true) (h : k ≤ (runOp m .hot sub raw).out.length) :
    (runOpCutIn m sub raw k).downOpen = false ∧ (runOpCutIn m sub raw k).upOpen = false :=
  runOpCutIn_released m sub raw hk hs h

/-- … whatever the source emits afterwards changes nothing -/
theorem cut_in_stable (m : Machine σ α β) (sub : Ctx) (raw more : List (Notif α)) {k : Nat} (hk : 0 < k)
    (h : k ≤ (runOpCutIn m sub raw k).out.length) :
    (runOpCutIn m sub (raw ++ more) k).out = (runOpCutIn m sub raw k).out :=
  runOpCutIn_stable m sub raw more hk h

/-- … each later input is refused by the operator's upstream subscriber: dropped, the operator's
    callbacks are not invoked -/
theorem cut_in_refuses_later (m : Machine σ α β) (k : Nat) (r : RunSt σ α β) (x : Notif α) (h : r.upOpen = false) :
    (r.feedCutIn m k x).out = r.out ∧ (r.feedCutIn m k x).st = r.st ∧
    (r.feedCutIn m k x).drops = r.drops ++ [.up x] ∧ (r.feedCutIn m k x).upOpen = false :=
  feedCutIn_closed m k r x h

/-- … and an observer that never reaches its k-th callback disturbs nothing at all -/
theorem cut_in_unchanged (m : Machine σ α β) (sub : Ctx) (raw : List (Notif α)) {k : Nat} (hk : 0 < k)
    (hs : m.subscribes = true) (h : (runOp m .hot sub raw).out.length < k) :
    runOpCutIn m sub raw k = runOp m .hot sub raw :=
  runOpCutIn_unchanged m sub raw hk hs h

/-- the handle returned by Subscribe: deciding to unsubscribe inside Subscribe takes effect when
    Subscribe returns; otherwise as above -/
theorem cut_in_returned_handle (m : Machine σ α β) (sub : Ctx) (raw : List (Notif α)) {k : Nat} (hk : 0 < k)
    (hs : m.subscribes = true) :
    (k ≤ (m.start sub).out.length →
        (runOpCutInRet m sub raw k).out = (runOp m .hot sub []).out ∧ (runOpCutInRet m sub raw k).upOpen = false) ∧
    ((m.start sub).out.length < k → runOpCutInRet m sub raw k = runOpCutIn m sub raw k) :=
  runOpCutInRet_out m sub raw hk hs

/-- Unsubscribe called from outside between two inputs (after the k-th): what was delivered is the
    run over the first k inputs; the source is released (RoProofs/Release.lean) -/
theorem cut_between (m : Machine σ α β) (sub : Ctx) (raw : List (Notif α)) (k : Nat) (hs : m.subscribes = true) :
    (runOpCut m sub raw k).out = (runOp m .hot sub (raw.take k)).out ∧ (runOpCut m sub raw k).upOpen = false :=
  runOpCut_out m sub raw k hs

/-- Collect is the specification applied to the gated trace, for every machine, mode and script -/
theorem collect_spec (m : Machine σ α β) (mode : SrcMode) (sub : Ctx) (raw : List (Notif α)) (hs : m.subscribes = true) :
    collect (runOp m mode sub raw) =
      Spec.collect ((m.onSubscribe m.init sub).2 ++ m.emits (m.onSubscribe m.init sub).1 (gate raw)) :=
  collect_runOp m mode sub raw hs

theorem collect_sync_async (m : Machine σ α β) (sub : Ctx) (raw : List (Notif α)) :
    collect (runOp m .sync sub raw) = collect (runOp m .hot sub raw) :=
  collect_mode_indep m sub raw

/-- Collect returns exactly when the delivered trace has a terminal -/
theorem collect_returns_iff (m : Machine σ α β) (mode : SrcMode) (sub : Ctx) (raw : List (Notif α)) :
    (collect (runOp m mode sub raw)).isSome = hasTerm (runOp m mode sub raw).out :=
  collect_isSome m mode sub raw

/-- … and then exactly the delivered values, in order, with the terminal's error and context -/
theorem collect_exact (m : Machine σ α β) (mode : SrcMode) (sub : Ctx) (raw : List (Notif α)) (c : CollectSt β)
    (h : collect (runOp m mode sub raw) = some c) :
    c.values = (values (runOp m mode sub raw).out).map (·.2) ∧
    c.err = (ending (runOp m mode sub raw).out).err ∧
    c.lastCtx = (ending (runOp m mode sub raw).out).ctx :=
  collect_values m mode sub raw c h

/-! ### non-vacuity -/

-- EndWith(8,9) over `1, complete`: undisturbed 1 8 9 C; the observer unsubscribes during its 2nd callback
example : (runOp (endWithM [8, 9]) .hot {} [.next {} (1 : Int), .complete {}]).out
    = [.next {} 1, .next {} 8, .next {} 9, .complete {}] := by decide
example : (runOpCutIn (endWithM [8, 9]) {} [.next {} (1 : Int), .complete {}] 2).out = [.next {} 1, .next {} 8] := by decide
-- the rest of the same reaction (9, C) is refused downstream, the source is released
example : (runOpCutIn (endWithM [8, 9]) {} [.next {} (1 : Int), .complete {}] 2).drops.length = 2 := by decide
example : (runOpCutIn (endWithM [8, 9]) {} [.next {} (1 : Int), .complete {}] 2).upOpen = false := by decide
-- a later input is refused upstream
example : (runOpCutIn (mapToM (α := Int) (7 : Int)) {} [.next {} 1, .next {} 2, .next {} 3] 1).out = [.next {} 7] := by decide
example : (runOpCutIn (mapToM (α := Int) (7 : Int)) {} [.next {} 1, .next {} 2, .next {} 3] 1).drops.length = 2 := by decide
-- cut during Subscribe (StartWith's prefix): ready-made subscriber vs returned handle
example : (runOpCutIn (startWithM [8, 9]) {} [.next {} (1 : Int)] 1).out = [.next {} 8] := by decide
example : (runOpCutInRet (startWithM [8, 9]) {} [.next {} (1 : Int)] 1).out = [.next {} 8, .next {} 9] := by decide
-- external cut after one input
example : (runOpCut (mapToM (α := Int) (7 : Int)) {} [.next {} 1, .next {} 2] 1).out = [.next {} 7] := by decide
-- Collect: Take(2) over a never-ending source returns; the bare source does not
example : collect (runOp (takeM (α := Int) 2) .sync {} [.next {} 1, .next {} 2, .next {} 3])
    = some { values := [1, 2], lastCtx := some {}, err := none } := by decide
example : collect (runOp (mapToM (α := Int) (7 : Int)) .hot {} [.next {} 1, .next {} 2]) = none := by decide
example : collect (runOp (mapToM (α := Int) (7 : Int)) .hot {} [.next {} 1, .error {} (.user 3), .next {} 2])
    = some { values := [7], lastCtx := some {}, err := some (.user 3) } := by decide

end Ro.C06op

#print axioms Ro.C06op.cut_in_out
#print axioms Ro.C06op.cut_in_released
#print axioms Ro.C06op.cut_in_stable
#print axioms Ro.C06op.cut_in_refuses_later
#print axioms Ro.C06op.cut_in_unchanged
#print axioms Ro.C06op.cut_in_returned_handle
#print axioms Ro.C06op.cut_between
#print axioms Ro.C06op.collect_spec
#print axioms Ro.C06op.collect_sync_async
#print axioms Ro.C06op.collect_returns_iff
#print axioms Ro.C06op.collect_exact

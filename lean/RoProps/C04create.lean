/-
  C04 (generated creation operators) — the tie between the script generators and operator_creation.go, tightened
  by a translator.

  `go/extract` (gengen.go) re-translates, on every run, the bodies of the synchronous creation operators Of (Just),
  Start, Range, Repeat, FromSlice, Empty and Throw into `Ro.Gen` values built from the statement combinators of
  RoModel/Ops/CreateGen.lean (lean/RoGen/GenGen.lean, namespace RoGen.Gen). This file proves, for ALL parameters,
  that each regenerated generator EQUALS the hand-written generator of RoModel/Ops/Create.lean — the one the C04
  creation theorems (generator = documented script, RoProofs/Ops/CreateSpecs.lean) and the correspondence are about.
  For Range the Go loop `for cursor*sign < end*sign` is translated with a fuel parameter; the equality is proved for
  every fuel ≥ |end − start| (the loop provably ends within that many iterations).
-/
import RoModel.Ops.CreateGen
import RoProofs.Ops.CreateSpecs
import RoGen.GenGen
namespace Ro.C04create
open Ro Ro.GenB
variable {α β : Type}

/-! ### the combinators on a run that has not panicked -/

theorem emit_ok (n : Notif α) (e : Emission α) (h : e.panic = none) :
    emit n e = { e with script := e.script ++ [n] } := by
  unfold emit; rw [h]

theorem forEach_emit (f : β → Notif α) (xs : List β) (e : Emission α) (h : e.panic = none) :
    forEach xs (fun x => emit (f x)) e = { e with script := e.script ++ xs.map f } := by
  unfold forEach
  induction xs generalizing e with
  | nil => simp
  | cons x xs ih =>
    simp only [List.foldl_cons]
    rw [emit_ok (f x) e h, ih { e with script := e.script ++ [f x] } h]
    simp [List.append_assoc]

theorem forEach_forEach_emit {γ : Type} (g : β → List γ) (f : γ → Notif α) (xs : List β) (e : Emission α)
    (h : e.panic = none) :
    forEach xs (fun x => forEach (g x) (fun y => emit (f y))) e
      = { e with script := e.script ++ xs.flatMap (fun x => (g x).map f) } := by
  induction xs generalizing e with
  | nil => simp [forEach]
  | cons x xs ih =>
    have h1 := forEach_emit f (g x) e h
    show forEach xs _ (forEach (g x) (fun y => emit (f y)) e) = _
    rw [h1, ih { e with script := e.script ++ (g x).map f } h]
    simp [List.append_assoc]

theorem forWhile_emit (sign endv : Int) (c : Ctx) (fuel : Nat) (cur : Int) (e : Emission Int) (h : e.panic = none) :
    forWhile (fun cursor => decide (cursor * sign < endv * sign)) (fun cursor => cursor + sign)
        (fun cursor => emit (.next c cursor)) fuel cur e
      = { e with script := e.script ++ (rangeLoop sign endv fuel cur).map (Notif.next c) } := by
  induction fuel generalizing cur e with
  | zero => simp [forWhile, rangeLoop, skip]
  | succ n ih =>
    unfold forWhile rangeLoop
    by_cases hc : cur * sign < endv * sign
    · simp only [hc, decide_true, if_true, seq]
      rw [emit_ok _ _ h, ih (cur + sign) { e with script := e.script ++ [Notif.next c cur] } h]
      simp [List.append_assoc]
    · simp [hc, skip]

/-! ### the generators -/

theorem emptyG_gen : (RoGen.Gen.emptyG : Gen α) = Ro.emptyG := rfl

theorem throwG_gen (e : Err) : (RoGen.Gen.throwG e : Gen α) = Ro.throwG e := rfl

theorem ofG_gen (vs : List α) : RoGen.Gen.ofG vs = Ro.ofG vs := by
  funext c
  unfold RoGen.Gen.ofG Ro.ofG run seq
  rw [forEach_emit (fun v => Notif.next c v) vs _ rfl, emit_ok _ _ rfl]
  simp only [List.nil_append, foldr_next_eq]

theorem startG_gen (cb : Outcome α) : RoGen.Gen.startG cb = Ro.startG cb := by
  funext c
  cases cb <;> rfl

theorem fromSliceG_gen (vss : List (List α)) : RoGen.Gen.fromSliceG vss = Ro.fromSliceG vss := by
  funext c
  unfold RoGen.Gen.fromSliceG Ro.fromSliceG run seq
  rw [forEach_forEach_emit (fun vs => vs) (fun v => Notif.next c v) vss _ rfl, emit_ok _ _ rfl]
  simp only [List.nil_append]
  congr 1
  induction vss with
  | nil => rfl
  | cons vs vss ih =>
    simp only [List.flatMap_cons, List.foldr_cons, List.append_assoc]
    rw [ih, foldr_next_eq]

theorem repeatLoop_replicate (c : Ctx) (item : α) (n : Nat) : repeatLoop c item n = List.replicate n (.next c item) := by
  induction n with
  | zero => rfl
  | succ n ih => simp [repeatLoop, ih, List.replicate_succ]

theorem repeatG_gen (item : α) (count : Nat) : RoGen.Gen.repeatG item count = Ro.repeatG item count := by
  unfold RoGen.Gen.repeatG Ro.repeatG
  split
  · exact emptyG_gen
  · funext c
    unfold run seq forCount
    rw [forEach_emit (fun _ => Notif.next c item) (List.range count) _ rfl, emit_ok _ _ rfl, repeatLoop_replicate]
    simp [List.map_const']

/-- more fuel than the ascending loop needs changes nothing -/
theorem rangeLoop_up_fuel (endv : Int) : ∀ (fuel : Nat) (cur : Int), (endv - cur).toNat ≤ fuel →
    rangeLoop 1 endv fuel cur = rangeLoop 1 endv (endv - cur).toNat cur
  | 0, cur, h => by
    have : (endv - cur).toNat = 0 := by omega
    rw [this]
  | fuel + 1, cur, h => by
    by_cases hc : cur < endv
    · have hn : (endv - cur).toNat = (endv - (cur + 1)).toNat + 1 := by omega
      rw [hn]
      unfold rangeLoop
      simp only [Int.mul_one, hc, if_true]
      rw [rangeLoop_up_fuel endv fuel (cur + 1) (by omega)]
    · have hz : (endv - cur).toNat = 0 := by omega
      rw [hz]
      unfold rangeLoop
      simp [hc]

/-- … and the descending loop -/
theorem rangeLoop_down_fuel (endv : Int) : ∀ (fuel : Nat) (cur : Int), (cur - endv).toNat ≤ fuel →
    rangeLoop (-1) endv fuel cur = rangeLoop (-1) endv (cur - endv).toNat cur
  | 0, cur, h => by
    have : (cur - endv).toNat = 0 := by omega
    rw [this]
  | fuel + 1, cur, h => by
    by_cases hc : endv < cur
    · have hn : (cur - endv).toNat = (cur + -1 - endv).toNat + 1 := by omega
      rw [hn]
      unfold rangeLoop
      have hc' : cur * -1 < endv * -1 := by omega
      simp only [hc', if_true]
      rw [rangeLoop_down_fuel endv fuel (cur + -1) (by omega)]
    · have hz : (cur - endv).toNat = 0 := by omega
      rw [hz]
      unfold rangeLoop
      have hc' : ¬ cur * -1 < endv * -1 := by omega
      simp only [hc', if_false]

/-- Range: the regenerated generator is the hand-written one for EVERY fuel that covers the distance — the Go loop
    `for cursor*sign < end*sign { …; cursor += sign }` ends within |end − start| iterations -/
theorem rangeG_gen (start endv : Int) (fuel : Nat) (hf : (endv - start).natAbs ≤ fuel) :
    RoGen.Gen.rangeG start endv fuel = Ro.rangeG start endv := by
  unfold RoGen.Gen.rangeG Ro.rangeG
  split
  · exact emptyG_gen
  · funext c
    unfold run seq
    rw [forWhile_emit _ _ _ _ _ _ rfl, emit_ok _ _ rfl]
    simp only [List.nil_append]
    congr 2
    by_cases hd : start > endv
    · simp only [hd, if_true]
      rw [rangeLoop_down_fuel endv fuel start (by omega), rangeLoop_down_fuel endv (endv - start).natAbs start (by omega)]
    · simp only [hd, if_false]
      rw [rangeLoop_up_fuel endv fuel start (by omega), rangeLoop_up_fuel endv (endv - start).natAbs start (by omega)]

theorem forWhileStep_emit (sign step endv : Int) (c : Ctx) (fuel : Nat) (cur : Int) (e : Emission Int) (h : e.panic = none) :
    forWhile (fun cursor => decide (cursor * sign < endv * sign)) (fun cursor => cursor + step * sign)
        (fun cursor => emit (.next c cursor)) fuel cur e
      = { e with script := e.script ++ (rangeStepLoop sign step endv fuel cur).map (Notif.next c) } := by
  induction fuel generalizing cur e with
  | zero => simp [forWhile, rangeStepLoop, skip]
  | succ n ih =>
    unfold forWhile rangeStepLoop
    by_cases hc : cur * sign < endv * sign
    · simp only [hc, decide_true, if_true, seq]
      rw [emit_ok _ _ h, ih (cur + step * sign) { e with script := e.script ++ [Notif.next c cur] } h]
      simp [List.append_assoc]
    · simp [hc, skip]

/-- RangeWithStep (integral bounds, positive integral step — the constructor panics otherwise): the regenerated
    generator is the hand-written one for EVERY fuel that covers the distance -/
theorem rangeWithStepG_gen (start endv : Int) (s : Nat) (hs : 0 < s) (fuel : Nat) (hf : (endv - start).natAbs ≤ fuel) :
    RoGen.Gen.rangeWithStepG start endv (s : Int) fuel = Ro.rangeStepG start endv (s : Int) := by
  unfold RoGen.Gen.rangeWithStepG Ro.rangeStepG
  split
  · exact emptyG_gen
  · funext c
    unfold run seq
    rw [forWhileStep_emit _ _ _ _ _ _ _ rfl, emit_ok _ _ rfl]
    simp only [List.nil_append]
    congr 2
    by_cases hd : start > endv
    · simp only [hd, if_true]
      rw [rangeStepLoop_down endv s hs fuel start (by omega), rangeStepLoop_down endv s hs (endv - start).natAbs start (by omega)]
    · simp only [hd, if_false]
      rw [rangeStepLoop_up endv s hs fuel start (by omega), rangeStepLoop_up endv s hs (endv - start).natAbs start (by omega)]

/-- what a subscriber of the REGENERATED `RangeWithStep` receives is the documented range — every `start ± i·step`
    inside `[start:end)`, the last one included when the span is not a multiple of the step -/
theorem rangeWithStepG_delivered_gen (start endv : Int) (s : Nat) (hs : 0 < s) (fuel : Nat) (hf : (endv - start).natAbs ≤ fuel) (c : Ctx) :
    (RoGen.Gen.rangeWithStepG start endv (s : Int) fuel).delivered c = Spec.rangeStepScript start endv s c := by
  rw [rangeWithStepG_gen start endv s hs fuel hf]
  exact (rangeStepG_delivered start endv s hs c).1

example : ((RoGen.Gen.rangeWithStepG 0 5 2 5) Ctx.bg).script.length = 4 := by decide

/-- the creation theorems transfer to the regenerated generators: what a subscriber of the REGENERATED `Range`
    receives is the documented script -/
theorem rangeG_delivered_gen (start endv : Int) (fuel : Nat) (hf : (endv - start).natAbs ≤ fuel) (c : Ctx) :
    (RoGen.Gen.rangeG start endv fuel).delivered c = (Ro.rangeG start endv).delivered c := by
  rw [rangeG_gen start endv fuel hf]

/-- non-vacuity: the regenerated generators compute -/
example : ((RoGen.Gen.rangeG 3 0 5) Ctx.bg).script.length = 4 := by decide
example : ((RoGen.Gen.fromSliceG [[1, 2], [], [3]]) Ctx.bg).script = [.next Ctx.bg 1, .next Ctx.bg 2, .next Ctx.bg 3, .complete Ctx.bg] := by decide
example : ((RoGen.Gen.startG (.panic (.user 5) : Outcome Nat)) Ctx.bg).script = [] ∧
    ((RoGen.Gen.startG (.panic (.user 5) : Outcome Nat)) Ctx.bg).panic = some (.user 5) := by decide

theorem nothing_skipped : RoGen.Gen.skipped = [] := by decide
theorem translated_names : RoGen.Gen.translated = ["Empty", "Of", "Start", "Range", "RangeWithStep", "Repeat", "FromSlice", "Throw"] := by decide

end Ro.C04create

#print axioms Ro.C04create.emptyG_gen
#print axioms Ro.C04create.throwG_gen
#print axioms Ro.C04create.ofG_gen
#print axioms Ro.C04create.startG_gen
#print axioms Ro.C04create.fromSliceG_gen
#print axioms Ro.C04create.repeatG_gen
#print axioms Ro.C04create.rangeG_gen
#print axioms Ro.C04create.rangeG_delivered_gen
#print axioms Ro.C04create.rangeWithStepG_gen
#print axioms Ro.C04create.rangeWithStepG_delivered_gen
#print axioms Ro.C04create.nothing_skipped
#print axioms Ro.C04create.translated_names

/-
  C05 — multi-source operators honour every arrival order of their inputs.
  Index file audited on every run (`#print axioms` lines at the end). The theorems live in one file per
  half of the operator family:
   * RoProps/C05a.lean — MergeAll∘Just / Merge / MergeWith*, RaceWith / Race / Amb, TakeUntil, SkipUntil,
     SampleWhen, ThrottleWhen (machines: RoModel/Multi/OpsA.lean, definitions: RoModel/Spec/Multi.lean).
-/
import RoProps.C05a

-- first half (C05a)
#print axioms Ro.C05a.per_source_order
#print axioms Ro.C05a.merge
#print axioms Ro.C05a.merge_releases
#print axioms Ro.C05a.merge_per_source_order
#print axioms Ro.C05a.merge_all_values
#print axioms Ro.C05a.merge_error
#print axioms Ro.C05a.merge_complete
#print axioms Ro.C05a.mergeAll
#print axioms Ro.C05a.race
#print axioms Ro.C05a.race_releases
#print axioms Ro.C05a.race_losers_released
#print axioms Ro.C05a.race_cut_releases
#print axioms Ro.C05a.race_done_releases
#print axioms Ro.C05a.takeUntil_impl
#print axioms Ro.C05a.takeUntil_partial
#print axioms Ro.C05a.takeUntil_signal_error_witness
#print axioms Ro.C05a.takeUntil_concurrent
#print axioms Ro.C05a.skipUntil_impl
#print axioms Ro.C05a.skipUntil_partial
#print axioms Ro.C05a.skipUntil_signal_error_witness
#print axioms Ro.C05a.sampleWhen
#print axioms Ro.C05a.throttleWhen
#print axioms Ro.C05a.until_sample_throttle_release
#print axioms Ro.C05a.grammar

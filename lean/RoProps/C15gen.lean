/-
  RoProps.C15gen — the re-subscribing operators REGENERATED from the Go source on this run compute exactly the
  `Result` of the hand-written loops the C15 theorems are about.

  `go/extract/loopgen.go` translates the subscribe functions of RetryWithConfig, OnErrorResumeNextWith, Catch,
  DoWhileIWithContext, WhileIWithContext (operator_error_handling.go) and RepeatWith (operator_utility.go),
  statement by statement, into loop programs (`RoGen/LoopGen.lean`; language and meaning: `RoModel/ResubGen.lean`).
  For every configuration, every subscription context, every list of attempt outcomes (of any length), every
  truth sequence of the condition, every cancellation point, every point at which the destination goes away and
  any fuel above the stated bound:

      (<op>G params).run env outs conds cut  =  (ret, <hand-written loop> params … outs)

  so every theorem of RoProps/C15.lean about `retry`, `while_`, `doWhile`, `repeatWith`, `onErrorResumeNext`,
  `catch_` is a theorem about the text the translator produced from the repository under check.
  `nothing_skipped` / `translated_names` / `guards_as_expected` / `attempts_as_expected` (decide) turn an operator
  that leaves the fragment, a changed parameter guard, an attempt that is no longer waited for or that subscribes
  a different observable into a failed obligation.

  Proof pattern per operator: what the callbacks do over the values of an attempt (`…_vals`), one attempt in the
  vocabulary of the hand-written loop (`…_attempt`), one round of the loop body (`…_body`), the loop by
  induction over the outcomes / the condition sequence / the count (`…_iter`), the whole subscribe function (`…_gen`).
-/
import RoGen.LoopGen
import RoProofs.ResubGen
import RoProps.C15
set_option linter.unusedVariables false
set_option linter.unusedSimpArgs false
namespace Ro.C15gen
open Ro Ro.Resub Ro.Resub.Gen RoGen.Loop

/-- unfold the fold from happenings to a `Result` -/
macro "ofouts" : tactic =>
  `(tactic| simp [Result.ofOuts, Result.after, Result.stop, Result.evaluated, rawsOf, evsOf, attemptsOf, evalsOf,
      rawsOf_append, evsOf_append, attemptsOf_append, evalsOf_append, feedOuts_append])

/-! ### RetryWithConfig -/

theorem retry_next_step (m : Nat) (d reset : Bool) (sub : Ctx) (env : Env) (ctx : Ctx) (value : Int)
    (l : RetryWithConfigSt) (w : World) :
    exec env (retryWithConfigG_next1 m d reset sub ctx value) (l, w)
      = (.normal, ({ l with v0 := if reset then 0 else l.v0 }, { w with b := pushB w.b (.next ctx value) }),
          [.raw (.next ctx value)]) := by
  cases reset <;> simp [retryWithConfigG_next1, exec, dseq]

/-- what Retry's Next callback does over the values of an attempt -/
theorem retry_vals (m : Nat) (d reset : Bool) (sub c : Ctx) (env : Env) (vals : List (Nat × Int)) :
    ∀ (l : RetryWithConfigSt) (w : World),
    playVals c (fun ctx value => exec env (retryWithConfigG_next1 m d reset sub ctx value)) vals (l, w)
      = (({ l with v0 := if reset && !vals.isEmpty then 0 else l.v0 },
          { w with b := feedB w.b (vals.map (fun p => Notif.next (tagM c p.1) p.2)) }),
         feedOuts (vals.map (fun p => Notif.next (tagM c p.1) p.2))) := by
  induction vals with
  | nil => intro l w; simp [playVals, feedB, feedOuts]
  | cons p ps ih =>
    intro l w
    rw [playVals, retry_next_step]
    simp only [ih]
    cases reset <;> simp [feedB, feedOuts]

/-- one attempt of Retry, in the vocabulary of the hand-written loop -/
theorem retry_attempt (cfg : RetryCfg) (sub : Ctx) (env : Env) (o : Outcome) (rest : List Outcome) (l : RetryWithConfigSt)
    (cs : List Bool) (a : Nat) (b : Option Nat) :
    exec env (.attempt (fun _ => sub) (retryWithConfigG_next1 cfg.maxRetries cfg.delay cfg.reset sub)
        (retryWithConfigG_error1 cfg.maxRetries cfg.delay cfg.reset sub)
        (retryWithConfigG_complete1 cfg.maxRetries cfg.delay cfg.reset sub))
        (l, { outs := o :: rest, conds := cs, att := a, b := b, pend := [] })
      = match o.fin with
        | .complete => (.normal, ({ l with v0 := if cfg.reset && o.hasValues then 0 else l.v0 },
              { outs := rest, conds := cs, att := a + 1, b := feedB b (o.nexts sub ++ [.complete (o.finCtx sub)]), pend := [] }),
            Out.ev (.s (a + 1)) :: (feedOuts (o.nexts sub ++ [.complete (o.finCtx sub)]) ++ [Out.ev (.t (a + 1))]))
        | .error e => (.normal, ({ v0 := retriesAfter cfg l.v0 o, v1 := shouldRetry cfg (retriesAfter cfg l.v0 o), v2 := some (.user e) },
              { outs := rest, conds := cs, att := a + 1, b := feedB b (o.nexts sub), pend := [] }),
            Out.ev (.s (a + 1)) :: (feedOuts (o.nexts sub) ++ [Out.ev (.t (a + 1))])) := by
  obtain ⟨vals, fm, fin⟩ := o
  cases fin <;>
    simp [exec, playAttempt, outcomeAt, retry_vals, retryWithConfigG_complete1, retryWithConfigG_error1, dseq, Outcome.nexts,
      Outcome.finCtx, Outcome.hasValues, retriesAfter, shouldRetry, feedB, feedOuts, List.foldl_append]

/-- one round of Retry's loop body over a non-empty list of outcomes -/
theorem retry_body (cfg : RetryCfg) (sub : Ctx) (env : Env) (o : Outcome) (rest : List Outcome) (l : RetryWithConfigSt)
    (cs : List Bool) (a : Nat) (b : Option Nat) :
    exec env (retryWithConfigG_body cfg.maxRetries cfg.delay cfg.reset sub)
        (l, { outs := o :: rest, conds := cs, att := a, b := b, pend := [] })
      = if cancelledBefore env.cancel (a + 1) then
          (.ret, (l, { outs := o :: rest, conds := cs, att := a, b := pushB b (.error sub ctxCanceled), pend := [] }),
            [.raw (.error sub ctxCanceled)])
        else match o.fin with
        | .complete => (.brk, ({ v0 := if cfg.reset && o.hasValues then 0 else l.v0, v1 := false, v2 := none },
              { outs := rest, conds := cs, att := a + 1, b := feedB b (o.nexts sub ++ [.complete (o.finCtx sub)]), pend := [] }),
            Out.ev (.s (a + 1)) :: (feedOuts (o.nexts sub ++ [.complete (o.finCtx sub)]) ++ [Out.ev (.t (a + 1))]))
        | .error e =>
          if shouldRetry cfg (retriesAfter cfg l.v0 o) then
            if cfg.delay && cancelledBefore env.cancel (a + 2) then
              (.ret, ({ v0 := retriesAfter cfg l.v0 o, v1 := true, v2 := some (.user e) },
                { outs := rest, conds := cs, att := a + 1, b := pushB (feedB b (o.nexts sub)) (.error sub ctxCanceled), pend := [] }),
                Out.ev (.s (a + 1)) :: (feedOuts (o.nexts sub) ++ [Out.ev (.t (a + 1)), .raw (.error sub ctxCanceled)]))
            else
              (.cont, ({ v0 := retriesAfter cfg l.v0 o, v1 := true, v2 := some (.user e) },
                { outs := rest, conds := cs, att := a + 1, b := feedB b (o.nexts sub), pend := [] }),
                Out.ev (.s (a + 1)) :: (feedOuts (o.nexts sub) ++ [Out.ev (.t (a + 1))]))
          else
            (.brk, ({ v0 := retriesAfter cfg l.v0 o, v1 := false, v2 := some (.user e) },
                { outs := rest, conds := cs, att := a + 1, b := pushB (feedB b (o.nexts sub)) (.error sub (.user e)), pend := [] }),
                Out.ev (.s (a + 1)) :: (feedOuts (o.nexts sub) ++ [Out.ev (.t (a + 1)), .raw (.error sub (.user e))])) := by
  have hA := retry_attempt cfg sub env o rest { v0 := l.v0, v1 := false, v2 := none } cs a b
  simp only [retryWithConfigG_body, exec, dseq] at hA ⊢
  by_cases hcb : cancelledBefore env.cancel (a + 1) = true
  · simp [hcb]
  · cases hfin : o.fin with
    | complete => simp [hfin] at hA; simp [hcb, hA]
    | error e =>
      simp [hfin] at hA
      cases hsr : shouldRetry cfg (retriesAfter cfg l.v0 o)
      all_goals simp only [hsr] at hA
      · simp [hcb, hA, goErr]
      · cases hd : cfg.delay <;> simp only [hd] at hA <;>
          by_cases hcb2 : cancelledBefore env.cancel (a + 2) = true <;> simp [hcb, hA, hcb2]

theorem retry_iter (cfg : RetryCfg) (sub : Ctx) (cancel : Option Nat) :
    ∀ (outs : List Outcome) (fuel : Nat) (env : Env) (l : RetryWithConfigSt) (cs : List Bool) (a : Nat) (b : Option Nat),
      outs.length + 2 ≤ fuel → env.cancel = cancel →
      let r := iterate (fun _ => true) (exec env .skip) (exec env (retryWithConfigG_body cfg.maxRetries cfg.delay cfg.reset sub)) fuel
        (l, { outs := outs, conds := cs, att := a, b := b, pend := [] })
      (r.1 = .normal ∨ r.1 = .ret) ∧ Result.ofOuts r.2.2 = retryLoop cfg sub cancel outs (a + 1) l.v0 := by
  intro outs
  induction outs with
  | nil =>
    intro fuel env l cs a b hf hc
    obtain ⟨n, rfl⟩ : ∃ n, fuel = n + 1 := ⟨fuel - 1, by omega⟩
    simp only [iterate, retryWithConfigG_body, exec, dseq, retryLoop, hc]
    by_cases hcb : cancelledBefore cancel (a + 1) = true
    · simp [hcb]; ofouts
    · simp [hcb, playAttempt, outcomeAt, Outcome.dflt, playVals, retryWithConfigG_complete1, exec, Outcome.finCtx, tagM]
      ofouts
  | cons o rest ih =>
    intro fuel env l cs a b hf hc
    obtain ⟨n, rfl⟩ : ∃ n, fuel = n + 1 := ⟨fuel - 1, by omega⟩
    have hih := fun l' b' => ih n env l' cs (a + 1) b' (by simp at hf; omega) hc
    simp only [iterate, retry_body, retryLoop, hc, if_true]
    by_cases hcb : cancelledBefore cancel (a + 1) = true
    · simp [hcb]; ofouts
    · cases hfin : o.fin with
      | complete => simp [hcb]; ofouts
      | error e =>
        cases hsr : shouldRetry cfg (retriesAfter cfg l.v0 o)
        · simp [hcb]; ofouts
        · by_cases hdc : (cfg.delay && cancelledBefore cancel (a + 2)) = true
          · have hdc' : (cfg.delay && cancelledBefore cancel (a + 1 + 1)) = true := hdc
            simp [hcb, hdc, hdc']; ofouts
          · have hdc' : ¬ (cfg.delay && cancelledBefore cancel (a + 1 + 1)) = true := hdc
            have := hih { v0 := retriesAfter cfg l.v0 o, v1 := true, v2 := some (Err.user e) } (feedB b (o.nexts sub))
            simp only [hcb, hdc, hdc', exec, if_false, Bool.false_eq_true]
            refine ⟨this.1, ?_⟩
            rw [← this.2]
            simp [exec]; ofouts

/-- **RetryWithConfig, regenerated = hand-written**, for every configuration, subscription context, cancellation
    point and list of attempt outcomes -/
theorem retry_gen (cfg : RetryCfg) (sub : Ctx) (cancel : Option Nat) (outs : List Outcome) (cut : Option Nat) (mode : Mode)
    (ct fuel : Nat) (hf : outs.length + 2 ≤ fuel) :
    (retryWithConfigG cfg.maxRetries cfg.delay cfg.reset).run { sub := sub, cancel := cancel, ct := ct, mode := mode, fuel := fuel } outs [] cut
      = (.ret, retry cfg sub cancel outs) := by
  have := retry_iter cfg sub cancel outs fuel { sub := sub, cancel := cancel, ct := ct, mode := mode, fuel := fuel }
    { v0 := 0, v1 := false, v2 := none } [] 0 cut hf rfl
  simp only [LoopProg.run, retryWithConfigG, exec, dseq, retry] at this ⊢
  exact loop_then_ret _ _ this.1 this.2

/-! ### OnErrorResumeNextWith -/

theorem resume_vals (k : Nat) (sub c : Ctx) (env : Env) (vals : List (Nat × Int)) (l : OnErrorResumeNextWithSt) (w : World) :
    playVals c (fun ctx value => exec env (onErrorResumeNextWithG_next1 k sub ctx value)) vals (l, w)
      = ((l, { w with b := feedB w.b (vals.map (fun p => Notif.next (tagM c p.1) p.2)) }),
         feedOuts (vals.map (fun p => Notif.next (tagM c p.1) p.2))) :=
  playVals_forward c _ (fun x v l w => by simp [onErrorResumeNextWithG_next1, exec]) vals l w

/-- Go's `err` against the hand-written loop's -/
def errOf : Option Nat → GoErr
  | some e => some (.user e)
  | none => none

/-- the error an attempt leaves behind -/
def finErr : Fin → Option Nat
  | .complete => none
  | .error e => some e

/-- one round of the loop body -/
theorem resume_body (k : Nat) (sub : Ctx) (env : Env) (outs : List Outcome) (l : OnErrorResumeNextWithSt)
    (cs : List Bool) (a : Nat) (b : Option Nat) :
    exec env (onErrorResumeNextWithG_body k sub) (l, { outs := outs, conds := cs, att := a, b := b, pend := [] })
      = (.normal, ({ v0 := (outcomeAt outs 0).finCtx sub,
                     v1 := errOf (finErr (outcomeAt outs 0).fin),
                     v2 := l.v2 },
            { outs := outs.tail, conds := cs, att := a + 1, b := feedB b ((outcomeAt outs 0).nexts sub), pend := [] }),
          Out.ev (.s (a + 1)) :: (feedOuts ((outcomeAt outs 0).nexts sub) ++ [Out.ev (.t (a + 1))])) := by
  simp only [onErrorResumeNextWithG_body, exec, dseq, playAttempt, resume_vals]
  cases hfin : (outcomeAt outs 0).fin <;>
    simp [onErrorResumeNextWithG_error1, onErrorResumeNextWithG_complete1, exec, dseq, errOf, finErr, Outcome.nexts]

/-- the notification the epilogue hands to the destination -/
def resumeLast (l : OnErrorResumeNextWithSt) : Notif Int :=
  if l.v1.isSome then .error l.v0 (goErr l.v1) else .complete l.v0

theorem resume_iter (k : Nat) (sub : Ctx) :
    ∀ (n : Nat) (outs : List Outcome) (fuel : Nat) (env : Env) (l : OnErrorResumeNextWithSt) (cs : List Bool) (a : Nat)
      (b : Option Nat) (err : Option Nat),
      l.v2 + n = k → n + 1 ≤ fuel → l.v1 = errOf err →
      let r := iterate (fun s => decide (s.v2 < k)) (exec env (.set (fun s => { s with v2 := s.v2 + 1 })))
        (exec env (onErrorResumeNextWithG_body k sub)) fuel (l, { outs := outs, conds := cs, att := a, b := b, pend := [] })
      r.1 = .normal ∧ Result.ofOuts (r.2.2 ++ [.raw (resumeLast r.2.1.1)]) = resumeLoop sub n outs a l.v0 err := by
  intro n
  induction n with
  | zero =>
    intro outs fuel env l cs a b err hk hf he
    obtain ⟨m, rfl⟩ : ∃ m, fuel = m + 1 := ⟨fuel - 1, by omega⟩
    have : ¬ l.v2 < k := by omega
    simp only [iterate, this, decide_false, Bool.false_eq_true, if_false, resumeLoop, resumeLast, he]
    cases err <;> simp [errOf, goErr] <;> ofouts
  | succ n ih =>
    intro outs fuel env l cs a b err hk hf he
    obtain ⟨m, rfl⟩ : ∃ m, fuel = m + 1 := ⟨fuel - 1, by omega⟩
    have hlt : l.v2 < k := by omega
    simp only [iterate, hlt, decide_true, if_true, resume_body, exec, resumeLoop]
    have := ih outs.tail m env
      { v0 := (outcomeAt outs 0).finCtx sub,
        v1 := errOf (finErr (outcomeAt outs 0).fin), v2 := l.v2 + 1 }
      cs (a + 1) (feedB b ((outcomeAt outs 0).nexts sub))
      (finErr (outcomeAt outs 0).fin) (by simp; omega) (by omega) rfl
    simp only [exec] at this
    refine ⟨this.1, ?_⟩
    cases hfin : (outcomeAt outs 0).fin <;> simp only [hfin, finErr] at this ⊢ <;> rw [← this.2] <;> ofouts

/-- **OnErrorResumeNextWith (at least one fallback), regenerated = hand-written**; `nsources` = the source plus `k` fallbacks -/
theorem resume_gen (k : Nat) (hk : 0 < k) (sub : Ctx) (cancel : Option Nat) (outs : List Outcome) (cut : Option Nat) (mode : Mode)
    (ct fuel : Nat) (hf : k + 2 ≤ fuel) :
    (onErrorResumeNextWithG (k + 1)).run { sub := sub, cancel := cancel, ct := ct, mode := mode, fuel := fuel } outs [] cut
      = (.ret, onErrorResumeNext k sub outs) := by
  have := resume_iter (k + 1) sub (k + 1) outs fuel { sub := sub, cancel := cancel, ct := ct, mode := mode, fuel := fuel }
    { v0 := Ctx.nil, v1 := none, v2 := 0 } [] 0 cut none (by simp) hf rfl
  have hk' : ¬ k = 0 := by omega
  simp only [LoopProg.run, onErrorResumeNextWithG, exec, dseq, onErrorResumeNext, hk', if_false] at this ⊢
  revert this
  generalize iterate _ _ _ _ _ = r
  obtain ⟨g, s, o⟩ := r
  rintro ⟨h1, h2⟩
  simp at h1; subst h1
  rw [← h2]
  simp only [resumeLast]
  by_cases h : s.1.v1.isSome = true <;> simp [h] <;> ofouts

/-! ### Catch -/

theorem catch_vals (sub c : Ctx) (env : Env) (vals : List (Nat × Int)) (l : CatchSt) (w : World) :
    playVals c (fun ctx value => exec env (catchG_next1 sub ctx value)) vals (l, w)
      = ((l, { w with b := feedB w.b (vals.map (fun p => Notif.next (tagM c p.1) p.2)) }),
         feedOuts (vals.map (fun p => Notif.next (tagM c p.1) p.2))) :=
  playVals_forward c _ (fun x v l w => by simp [catchG_next1, exec]) vals l w

/-- **Catch, regenerated = hand-written** (the fallback is subscribed from inside the error callback of the first
    subscription: the listed deviation of C15, now a statement about the regenerated text) -/
theorem catch_gen (mode : Mode) (sub : Ctx) (cancel : Option Nat) (outs : List Outcome) (cut : Option Nat) (ct fuel : Nat) :
    catchG.run { sub := sub, cancel := cancel, ct := ct, mode := mode, fuel := fuel } outs [] cut
      = (.ret, catch_ mode sub outs) := by
  simp only [LoopProg.run, catchG, exec, dseq, playAttempt, catch_vals, catch_]
  cases hfin : (outcomeAt outs 0).fin with
  | complete => simp [catchG_complete1, exec, Outcome.nexts]; ofouts
  | error e =>
    cases mode <;>
      simp [catchG_error1, exec, playForward, Outcome.nexts, outcomeAt, List.getD_eq_getElem?_getD] <;> ofouts

/-! ### RepeatWith -/

theorem repeat_vals (count : Nat) (sub c : Ctx) (env : Env) (vals : List (Nat × Int)) (l : RepeatWithSt) (w : World) :
    playVals c (fun ctx value => exec env (repeatWithG_next1 count sub ctx value)) vals (l, w)
      = ((l, { w with b := feedB w.b (vals.map (fun p => Notif.next (tagM c p.1) p.2)) }),
         feedOuts (vals.map (fun p => Notif.next (tagM c p.1) p.2))) :=
  playVals_forward c _ (fun x v l w => by simp [repeatWithG_next1, exec]) vals l w

/-- `lastCtx` after an attempt -/
def repeatLast (o : Outcome) (sub last : Ctx) : Ctx :=
  match o.fin with
  | .complete => o.finCtx sub
  | .error _ => last

/-- one round of the loop body -/
theorem repeat_body (count : Nat) (sub : Ctx) (env : Env) (outs : List Outcome) (l : RepeatWithSt)
    (cs : List Bool) (a : Nat) (b : Option Nat) :
    exec env (repeatWithG_body count sub) (l, { outs := outs, conds := cs, att := a, b := b, pend := [] })
      = ((if closedB (feedB b (repeatRaw (outcomeAt outs 0) sub)) then Sig.brk else Sig.normal),
          ({ v0 := repeatLast (outcomeAt outs 0) sub l.v0, v1 := l.v1 },
            { outs := outs.tail, conds := cs, att := a + 1, b := feedB b (repeatRaw (outcomeAt outs 0) sub), pend := [] }),
          Out.ev (.s (a + 1)) :: (feedOuts (repeatRaw (outcomeAt outs 0) sub) ++ [Out.ev (.t (a + 1))])) := by
  simp only [repeatWithG_body, exec, dseq, playAttempt, repeat_vals]
  cases hfin : (outcomeAt outs 0).fin <;>
    simp [repeatWithG_error1, repeatWithG_complete1, exec, repeatRaw, repeatLast, hfin, Outcome.nexts, Gen.feedB_append, feedB] <;>
    split <;> simp_all [feedOuts]

theorem repeat_iter (count : Nat) (sub : Ctx) :
    ∀ (n : Nat) (outs : List Outcome) (fuel : Nat) (env : Env) (l : RepeatWithSt) (cs : List Bool) (a : Nat) (b : Option Nat),
      l.v1 + n = count → n + 1 ≤ fuel →
      let r := iterate (fun s => decide (s.v1 < count)) (exec env (.set (fun s => { s with v1 := s.v1 + 1 })))
        (exec env (repeatWithG_body count sub)) fuel (l, { outs := outs, conds := cs, att := a, b := b, pend := [] })
      r.1 = .normal ∧ Result.ofOuts (r.2.2 ++ [.raw (.complete r.2.1.1.v0)]) = repeatLoop sub n outs a b l.v0 := by
  intro n
  induction n with
  | zero =>
    intro outs fuel env l cs a b hk hf
    obtain ⟨m, rfl⟩ : ∃ m, fuel = m + 1 := ⟨fuel - 1, by omega⟩
    have : ¬ l.v1 < count := by omega
    simp only [iterate, this, decide_false, Bool.false_eq_true, if_false, repeatLoop]
    ofouts
  | succ n ih =>
    intro outs fuel env l cs a b hk hf
    obtain ⟨m, rfl⟩ : ∃ m, fuel = m + 1 := ⟨fuel - 1, by omega⟩
    have hlt : l.v1 < count := by omega
    simp only [iterate, hlt, decide_true, if_true, repeat_body, exec, repeatLoop]
    by_cases hcl : closedB (feedB b (repeatRaw (outcomeAt outs 0) sub)) = true
    · simp [hcl, repeatLast]
      cases hfin : (outcomeAt outs 0).fin <;> simp [hfin] <;> ofouts
    · have := ih outs.tail m env { v0 := repeatLast (outcomeAt outs 0) sub l.v0, v1 := l.v1 + 1 } cs (a + 1)
        (feedB b (repeatRaw (outcomeAt outs 0) sub)) (by simp; omega) (by omega)
      simp only [exec] at this
      simp only [hcl, if_false, Bool.false_eq_true]
      refine ⟨this.1, ?_⟩
      cases hfin : (outcomeAt outs 0).fin <;> simp only [hfin, repeatLast] at this ⊢ <;> rw [← this.2] <;> ofouts

/-- **RepeatWith (count ≥ 1; `RepeatWith(0)` is `Empty()`: `guards_as_expected`), regenerated = hand-written** -/
theorem repeat_gen (count : Nat) (hc : 0 < count) (sub : Ctx) (cancel : Option Nat) (outs : List Outcome) (cut : Option Nat)
    (mode : Mode) (ct fuel : Nat) (hf : count + 1 ≤ fuel) :
    (repeatWithG count).run { sub := sub, cancel := cancel, ct := ct, mode := mode, fuel := fuel } outs [] cut
      = (.ret, repeatWith count sub cut outs) := by
  have := repeat_iter count sub count outs fuel { sub := sub, cancel := cancel, ct := ct, mode := mode, fuel := fuel }
    { v0 := Ctx.nil, v1 := 0 } [] 0 cut (by simp) hf
  have hc' : ¬ count = 0 := by omega
  simp only [LoopProg.run, repeatWithG, exec, dseq, repeatWith, hc', if_false] at this ⊢
  revert this
  generalize iterate _ _ _ _ _ = r
  obtain ⟨g, s, o⟩ := r
  rintro ⟨h1, h2⟩
  simp at h1; subst h1
  rw [← h2]
  ofouts

/-! ### WhileIWithContext -/

theorem while_vals (sub c : Ctx) (env : Env) (vals : List (Nat × Int)) (l : WhileIWithContextSt) (w : World) :
    playVals c (fun ctx value => exec env (whileIWithContextG_next1 sub ctx value)) vals (l, w)
      = ((l, { w with b := feedB w.b (vals.map (fun p => Notif.next (tagM c p.1) p.2)) }),
         feedOuts (vals.map (fun p => Notif.next (tagM c p.1) p.2))) :=
  playVals_forward c _ (fun x v l w => by simp [whileIWithContextG_next1, exec]) vals l w

/-- what the epilogue hands to the destination -/
def whileLast (l : WhileIWithContextSt) : List Out :=
  if l.v2.isSome then [] else [.raw (.complete l.v1)]

/-- one round of the loop body -/
theorem while_body (sub : Ctx) (env : Env) (outs : List Outcome) (conds : List Bool) (l : WhileIWithContextSt)
    (a : Nat) (b : Option Nat) (he : l.v2 = none) :
    exec env (whileIWithContextG_body sub) (l, { outs := outs, conds := conds, att := a, b := b, pend := [] })
      = if conds.headD false = false then
          (.brk, ({ l with v3 := condCtx env.ct l.v1 l.v0, v4 := false },
            { outs := outs, conds := conds.tail, att := a, b := b, pend := [] }), [.eval])
        else if (finErr (outcomeAt outs 0).fin).isSome then
          (.brk, ({ v0 := l.v0 + 1, v1 := l.v1, v2 := errOf (finErr (outcomeAt outs 0).fin), v3 := condCtx env.ct l.v1 l.v0, v4 := true },
            { outs := outs.tail, conds := conds.tail, att := a + 1,
              b := feedB b ((outcomeAt outs 0).nexts (condCtx env.ct l.v1 l.v0) ++
                [.error ((outcomeAt outs 0).finCtx (condCtx env.ct l.v1 l.v0)) (goErr (errOf (finErr (outcomeAt outs 0).fin)))]), pend := [] }),
            .eval :: Out.ev (.s (a + 1)) :: (feedOuts ((outcomeAt outs 0).nexts (condCtx env.ct l.v1 l.v0) ++
                [.error ((outcomeAt outs 0).finCtx (condCtx env.ct l.v1 l.v0)) (goErr (errOf (finErr (outcomeAt outs 0).fin)))]) ++ [Out.ev (.t (a + 1))]))
        else
          (.normal, ({ v0 := l.v0 + 1, v1 := condCtx env.ct l.v1 l.v0, v2 := l.v2, v3 := condCtx env.ct l.v1 l.v0, v4 := true },
            { outs := outs.tail, conds := conds.tail, att := a + 1,
              b := feedB b ((outcomeAt outs 0).nexts (condCtx env.ct l.v1 l.v0)), pend := [] }),
            .eval :: Out.ev (.s (a + 1)) :: (feedOuts ((outcomeAt outs 0).nexts (condCtx env.ct l.v1 l.v0)) ++ [Out.ev (.t (a + 1))])) := by
  simp only [whileIWithContextG_body, exec, dseq, playAttempt, while_vals]
  cases hc : conds.headD false
  · simp [hc]
  · cases hfin : (outcomeAt outs 0).fin <;>
      simp [hc, hfin, he, finErr, errOf, goErr, whileIWithContextG_error1, whileIWithContextG_complete1, exec, dseq, Outcome.nexts,
        Gen.feedB_append, feedB, feedOuts]

theorem while_iter (ct : Nat) (sub : Ctx) :
    ∀ (conds : List Bool) (outs : List Outcome) (fuel : Nat) (env : Env) (l : WhileIWithContextSt) (b : Option Nat),
      conds.length + 2 ≤ fuel → env.ct = ct → l.v2 = none →
      let r := iterate (fun _ => true) (exec env .skip) (exec env (whileIWithContextG_body sub)) fuel
        (l, { outs := outs, conds := conds, att := l.v0, b := b, pend := [] })
      r.1 = .normal ∧ Result.ofOuts (r.2.2 ++ whileLast r.2.1.1) = whileLoop ct conds outs l.v1 l.v0 := by
  intro conds
  induction conds with
  | nil =>
    intro outs fuel env l b hf hct he
    obtain ⟨m, rfl⟩ : ∃ m, fuel = m + 1 := ⟨fuel - 1, by omega⟩
    simp [iterate, while_body _ _ _ _ _ _ _ he, whileLoop, whileLast, he]
    ofouts
  | cons c cs ih =>
    intro outs fuel env l b hf hct he
    obtain ⟨m, rfl⟩ : ∃ m, fuel = m + 1 := ⟨fuel - 1, by omega⟩
    cases c with
    | false =>
      simp [iterate, while_body _ _ _ _ _ _ _ he, whileLoop, whileLast, he]
      ofouts
    | true =>
      simp only [iterate, while_body _ _ _ _ _ _ _ he, whileLoop, hct, if_true, List.headD_cons, List.tail_cons, Bool.true_eq_false, if_false]
      cases hfin : (outcomeAt outs 0).fin with
      | error e =>
        simp [finErr, errOf, goErr, whileLast]
        ofouts
      | complete =>
        have := ih outs.tail m env
          { v0 := l.v0 + 1, v1 := condCtx ct l.v1 l.v0, v2 := l.v2, v3 := condCtx ct l.v1 l.v0, v4 := true }
          (feedB b ((outcomeAt outs 0).nexts (condCtx ct l.v1 l.v0))) (by simp at hf; omega) hct he
        simp only [finErr, Option.isSome_none, Bool.false_eq_true, if_false, exec]  at this ⊢
        refine ⟨this.1, ?_⟩
        rw [← this.2]
        ofouts

/-- **WhileIWithContext (hence While, WhileI, WhileWithContext), regenerated = hand-written** -/
theorem while_gen (ct : Nat) (sub : Ctx) (cancel : Option Nat) (conds : List Bool) (outs : List Outcome) (cut : Option Nat)
    (mode : Mode) (fuel : Nat) (hf : conds.length + 2 ≤ fuel) :
    whileIWithContextG.run { sub := sub, cancel := cancel, ct := ct, mode := mode, fuel := fuel } outs conds cut
      = (.ret, while_ ct sub conds outs) := by
  have := while_iter ct sub conds outs fuel { sub := sub, cancel := cancel, ct := ct, mode := mode, fuel := fuel }
    { v0 := 0, v1 := sub, v2 := none, v3 := Ctx.nil, v4 := false } cut hf rfl rfl
  simp only [LoopProg.run, whileIWithContextG, exec, dseq, while_] at this ⊢
  revert this
  generalize iterate _ _ _ _ _ = r
  obtain ⟨g, s, o⟩ := r
  rintro ⟨h1, h2⟩
  simp at h1; subst h1
  rw [← h2]
  simp only [whileLast]
  by_cases h : s.1.v2.isSome = true <;> simp [h] <;> ofouts

/-! ### DoWhileIWithContext -/

theorem doWhile_vals (sub c : Ctx) (env : Env) (vals : List (Nat × Int)) (l : DoWhileIWithContextSt) (w : World) :
    playVals c (fun ctx value => exec env (doWhileIWithContextG_next1 sub ctx value)) vals (l, w)
      = ((l, { w with b := feedB w.b (vals.map (fun p => Notif.next (tagM c p.1) p.2)) }),
         feedOuts (vals.map (fun p => Notif.next (tagM c p.1) p.2))) :=
  playVals_forward c _ (fun x v l w => by simp [doWhileIWithContextG_next1, exec]) vals l w

/-- one round of the loop body -/
theorem doWhile_body (sub : Ctx) (env : Env) (outs : List Outcome) (conds : List Bool) (l : DoWhileIWithContextSt)
    (a : Nat) (b : Option Nat) (he : l.v3 = none) :
    exec env (doWhileIWithContextG_body sub) (l, { outs := outs, conds := conds, att := a, b := b, pend := [] })
      = if (finErr (outcomeAt outs 0).fin).isSome then
          (.brk, ({ v0 := l.v0, v1 := l.v1, v2 := l.v2, v3 := errOf (finErr (outcomeAt outs 0).fin), v4 := false },
            { outs := outs.tail, conds := conds, att := a + 1,
              b := feedB b ((outcomeAt outs 0).nexts l.v1 ++
                [.error ((outcomeAt outs 0).finCtx l.v1) (goErr (errOf (finErr (outcomeAt outs 0).fin)))]), pend := [] }),
            Out.ev (.s (a + 1)) :: (feedOuts ((outcomeAt outs 0).nexts l.v1 ++
                [.error ((outcomeAt outs 0).finCtx l.v1) (goErr (errOf (finErr (outcomeAt outs 0).fin)))]) ++ [Out.ev (.t (a + 1))]))
        else
          ((if conds.headD false then Sig.normal else Sig.brk),
            ({ v0 := l.v0 + 1, v1 := condCtx env.ct ((outcomeAt outs 0).finCtx l.v1) l.v0, v2 := conds.headD false, v3 := none, v4 := true },
            { outs := outs.tail, conds := conds.tail, att := a + 1, b := feedB b ((outcomeAt outs 0).nexts l.v1), pend := [] }),
            Out.ev (.s (a + 1)) :: (feedOuts ((outcomeAt outs 0).nexts l.v1) ++ [Out.eval, Out.ev (.t (a + 1))])) := by
  simp only [doWhileIWithContextG_body, exec, dseq, playAttempt, doWhile_vals]
  cases hfin : (outcomeAt outs 0).fin
  · cases hc : conds.head?.getD false <;>
      simp [List.headD_eq_head?_getD, hc, hfin, he, finErr, errOf, goErr, doWhileIWithContextG_error1, doWhileIWithContextG_complete1, exec, dseq,
        Outcome.nexts, Gen.feedB_append, feedB, feedOuts]
  · simp [hfin, he, finErr, errOf, goErr, doWhileIWithContextG_error1, doWhileIWithContextG_complete1, exec, dseq,
      Outcome.nexts, Gen.feedB_append, feedB, feedOuts]

/-- what the epilogue hands to the destination -/
def doWhileLast (l : DoWhileIWithContextSt) : List Out :=
  if l.v3.isSome then [] else [.raw (.complete l.v1)]

theorem doWhile_iter (ct : Nat) (sub : Ctx) :
    ∀ (conds : List Bool) (outs : List Outcome) (fuel : Nat) (env : Env) (l : DoWhileIWithContextSt) (b : Option Nat),
      conds.length + 2 ≤ fuel → env.ct = ct → l.v3 = none → l.v2 = true →
      let r := iterate (fun s => s.v2) (exec env .skip) (exec env (doWhileIWithContextG_body sub)) fuel
        (l, { outs := outs, conds := conds, att := l.v0, b := b, pend := [] })
      r.1 = .normal ∧ Result.ofOuts (r.2.2 ++ doWhileLast r.2.1.1) = doWhileLoop ct conds outs l.v1 l.v0 := by
  intro conds
  induction conds with
  | nil =>
    intro outs fuel env l b hf hct he hv
    obtain ⟨m, rfl⟩ : ∃ m, fuel = m + 1 := ⟨fuel - 1, by omega⟩
    simp only [iterate, hv, if_true, doWhile_body _ _ _ _ _ _ _ he, doWhileLoop, hct]
    cases hfin : (outcomeAt outs 0).fin <;> simp [finErr, errOf, goErr, doWhileLast] <;> ofouts
  | cons c cs ih =>
    intro outs fuel env l b hf hct he hv
    obtain ⟨m, rfl⟩ : ∃ m, fuel = m + 1 := ⟨fuel - 1, by omega⟩
    simp only [iterate, hv, if_true, doWhile_body _ _ _ _ _ _ _ he, doWhileLoop, hct]
    cases hfin : (outcomeAt outs 0).fin with
    | error e => simp [finErr, errOf, goErr, doWhileLast]; ofouts
    | complete =>
      cases c with
      | false => simp [finErr, doWhileLast]; ofouts
      | true =>
        have := ih outs.tail m env
          { v0 := l.v0 + 1, v1 := condCtx ct ((outcomeAt outs 0).finCtx l.v1) l.v0, v2 := true, v3 := none, v4 := true }
          (feedB b ((outcomeAt outs 0).nexts l.v1)) (by simp at hf; omega) hct rfl rfl
        simp only [finErr, Option.isSome_none, Bool.false_eq_true, if_false, if_true, List.headD_cons, List.tail_cons, exec] at this ⊢
        refine ⟨this.1, ?_⟩
        rw [← this.2]
        ofouts

/-- **DoWhileIWithContext (hence DoWhile, DoWhileI, DoWhileWithContext), regenerated = hand-written** -/
theorem doWhile_gen (ct : Nat) (sub : Ctx) (cancel : Option Nat) (conds : List Bool) (outs : List Outcome) (cut : Option Nat)
    (mode : Mode) (fuel : Nat) (hf : conds.length + 2 ≤ fuel) :
    doWhileIWithContextG.run { sub := sub, cancel := cancel, ct := ct, mode := mode, fuel := fuel } outs conds cut
      = (.ret, doWhile ct sub conds outs) := by
  have := doWhile_iter ct sub conds outs fuel { sub := sub, cancel := cancel, ct := ct, mode := mode, fuel := fuel }
    { v0 := 0, v1 := sub, v2 := true, v3 := none, v4 := false } cut hf rfl rfl rfl
  simp only [LoopProg.run, doWhileIWithContextG, exec, dseq, doWhile] at this ⊢
  revert this
  generalize iterate _ _ _ _ _ = r
  obtain ⟨g, s, o⟩ := r
  rintro ⟨h1, h2⟩
  simp at h1; subst h1
  rw [← h2]
  simp only [doWhileLast]
  by_cases h : s.1.v3.isSome = true <;> simp [h] <;> ofouts

/-! ### the C15 statements, for the text regenerated from the repository under check -/

open Ro.C15 Ro.Resub.Spec in
/-- Retry / RetryWithConfig as regenerated: attempts strictly one after another, the closed-form number of them, their
    values forwarded in order, the defined terminal — for every configuration, cancellation point and outcome list -/
theorem retry_conforms_gen (cfg : RetryCfg) (sub : Ctx) (cancel : Option Nat) (outs : List Outcome) (cut : Option Nat) (mode : Mode)
    (ct : Nat) :
    Conforms ((retryWithConfigG cfg.maxRetries cfg.delay cfg.reset).run
        { sub := sub, cancel := cancel, ct := ct, mode := mode, fuel := outs.length + 2 } outs [] cut).2
      outs (retryAttemptsC cfg cancel outs) (retryTerm cfg cancel outs) := by
  rw [retry_gen cfg sub cancel outs cut mode ct _ (Nat.le_refl _)]
  exact retry_conforms cfg sub cancel outs

open Ro.C15 Ro.Resub.Spec in
theorem while_conforms_gen (ct : Nat) (sub : Ctx) (cancel : Option Nat) (conds : List Bool) (outs : List Outcome) (cut : Option Nat)
    (mode : Mode) :
    Conforms (whileIWithContextG.run { sub := sub, cancel := cancel, ct := ct, mode := mode, fuel := conds.length + 2 } outs conds cut).2
      outs (whileAttempts conds outs) (termAfter outs (whileAttempts conds outs)) := by
  rw [while_gen ct sub cancel conds outs cut mode _ (Nat.le_refl _)]
  exact while_conforms ct sub conds outs

open Ro.C15 Ro.Resub.Spec in
theorem doWhile_conforms_gen (ct : Nat) (sub : Ctx) (cancel : Option Nat) (conds : List Bool) (outs : List Outcome) (cut : Option Nat)
    (mode : Mode) :
    Conforms (doWhileIWithContextG.run { sub := sub, cancel := cancel, ct := ct, mode := mode, fuel := conds.length + 2 } outs conds cut).2
      outs (doWhileAttempts conds outs) (termAfter outs (doWhileAttempts conds outs)) := by
  rw [doWhile_gen ct sub cancel conds outs cut mode _ (Nat.le_refl _)]
  exact doWhile_conforms ct sub conds outs

open Ro.C15 Ro.Resub.Spec in
theorem repeatWith_conforms_gen (count : Nat) (hc : 0 < count) (sub : Ctx) (cancel : Option Nat) (outs : List Outcome) (cut : Option Nat)
    (mode : Mode) (ct : Nat) :
    Conforms ((repeatWithG count).run { sub := sub, cancel := cancel, ct := ct, mode := mode, fuel := count + 1 } outs [] cut).2
      outs (repeatAttempts count cut outs) (termAfter outs (repeatAttempts count cut outs)) := by
  rw [repeat_gen count hc sub cancel outs cut mode ct _ (Nat.le_refl _)]
  exact repeatWith_conforms count sub cut outs

open Ro.C15 Ro.Resub.Spec in
theorem onErrorResumeNext_conforms_gen (k : Nat) (hk : 0 < k) (sub : Ctx) (cancel : Option Nat) (outs : List Outcome) (cut : Option Nat)
    (mode : Mode) (ct : Nat) :
    Conforms ((onErrorResumeNextWithG (k + 1)).run { sub := sub, cancel := cancel, ct := ct, mode := mode, fuel := k + 2 } outs [] cut).2
      outs (resumeAttempts k) (termAfter outs (resumeAttempts k)) := by
  rw [resume_gen k hk sub cancel outs cut mode ct _ (Nat.le_refl _)]
  exact onErrorResumeNext_conforms k sub outs

open Ro.C15 Ro.Resub.Spec in
/-- Catch as regenerated, outside the listed deviation class (a first attempt that fails) -/
theorem catch_conforms_partial_gen (mode : Mode) (sub : Ctx) (cancel : Option Nat) (outs : List Outcome) (cut : Option Nat) (ct fuel : Nat)
    (h : Known.catchFallback outs = false) :
    Conforms (catchG.run { sub := sub, cancel := cancel, ct := ct, mode := mode, fuel := fuel } outs [] cut).2
      outs (catchAttempts outs) (termAfter outs (catchAttempts outs)) := by
  rw [catch_gen]
  exact catch_conforms_partial mode sub outs h

/-! ### the regenerated tables -/

/-- every operator of the list was translated (a source that leaves the fragment is reported, not skipped silently) -/
theorem nothing_skipped : RoGen.Loop.skipped = [] := by decide
theorem translated_names : RoGen.Loop.translated
    = ["RetryWithConfig", "OnErrorResumeNextWith", "Catch", "DoWhileIWithContext", "WhileIWithContext", "RepeatWith"] := by decide

/-- the parameter guards in front of the subscribe functions: `RepeatWith(0)` is `Empty()` and a negative count panics
    (`repeat_gen` is stated for `0 < count`), `OnErrorResumeNextWith()` is the source itself (`resume_gen`: `0 < k`) -/
theorem guards_as_expected : RoGen.Loop.guards = [
    ("RetryWithConfig", []),
    ("OnErrorResumeNextWith", [("source", "len(finally) == 0")]),
    ("Catch", []),
    ("DoWhileIWithContext", []),
    ("WhileIWithContext", []),
    ("RepeatWith", [("panic", "count < 0"), ("empty", "count == 0")])] := by decide

/-- which observable every attempt subscribes and that the loop waits for it (the `attempt` of the statement language
    does not say which source it plays: the n-th subscription plays the n-th outcome) -/
theorem attempts_as_expected : RoGen.Loop.attempts = [
    ("RetryWithConfig", [("source", "wait")]),
    ("OnErrorResumeNextWith", [("sources[i]", "wait")]),
    ("Catch", [("finally(err)", "forward"), ("source", "nowait-last")]),
    ("DoWhileIWithContext", [("source", "wait")]),
    ("WhileIWithContext", [("source", "wait")]),
    ("RepeatWith", [("source", "wait-unregistered")])] := by decide

/-! ### tests of the regenerated programs (labelled as tests): the non-vacuity runs of RoProps/C15, on the regenerated text -/
open Ro.C15 in
example : ((retryWithConfigG 2 false true).run { sub := {}, fuel := 7 } [fail0 1, fail1 2 21, fail0 3, fail0 4, fail0 5] [] none).2.attempts = 4 := by decide
open Ro.C15 in
example : ((retryWithConfigG 0 false false).run { sub := {}, cancel := some 2, fuel := 5 } [fail0 1, fail1 2 21, fail0 3] [] none).2.log
    = [.s 1, .t 1, .s 2, .t 2] := by decide
open Ro.C15 in
example : (whileIWithContextG.run { sub := {}, fuel := 5 } [ok1 11, ok1 21, ok1 31] [true, true, false] none).2.attempts = 2 := by decide
open Ro.C15 in
example : (doWhileIWithContextG.run { sub := {}, fuel := 4 } [ok1 11, ok1 21, ok1 31] [true, false] none).2.attempts = 2 := by decide
open Ro.C15 in
example : ((repeatWithG 3).run { sub := {}, fuel := 4 } [ok1 11, ok1 21, ok1 31] [] (some 1)).2.attempts = 1 := by decide
open Ro.C15 in
example : ((onErrorResumeNextWithG 3).run { sub := {}, fuel := 4 } [fail1 1 11, ok1 21, fail0 3] [] none).2.attempts = 3 := by decide
open Ro.C15 in
example : (catchG.run { sub := {}, fuel := 0 } [fail0 1, ok1 21] [] none).2.log = [.s 1, .s 2, .t 2, .t 1] := by decide
/-- out of fuel is visible, never silently a result -/
example : ((retryWithConfigG 0 false false).run { sub := {}, fuel := 1 } [⟨[], 0, .error 1⟩, ⟨[], 0, .error 2⟩] [] none).1 = .stuck := by decide

end Ro.C15gen

#print axioms Ro.C15gen.retry_gen
#print axioms Ro.C15gen.resume_gen
#print axioms Ro.C15gen.catch_gen
#print axioms Ro.C15gen.repeat_gen
#print axioms Ro.C15gen.while_gen
#print axioms Ro.C15gen.doWhile_gen
#print axioms Ro.C15gen.retry_conforms_gen
#print axioms Ro.C15gen.while_conforms_gen
#print axioms Ro.C15gen.doWhile_conforms_gen
#print axioms Ro.C15gen.repeatWith_conforms_gen
#print axioms Ro.C15gen.onErrorResumeNext_conforms_gen
#print axioms Ro.C15gen.catch_conforms_partial_gen
#print axioms Ro.C15gen.nothing_skipped
#print axioms Ro.C15gen.translated_names
#print axioms Ro.C15gen.guards_as_expected
#print axioms Ro.C15gen.attempts_as_expected

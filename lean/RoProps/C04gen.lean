/-
  C04 (generated machines) — the tie between model and code, tightened by a translator.

  `go/extract` (opgen.go) re-translates, on every run, the Go source of every single-source
  template operator into a Lean `Machine` (lean/RoGen/OpsGen.lean, namespace `RoGen.Ops`).
  This file proves, for ALL parameters, that each regenerated machine EQUALS the hand-written
  machine of lean/RoModel/Ops/*.lean — the machine the C04 property theorems (machine =
  specification, for all raw scripts and source modes) are about. A change to the Go code of such
  an operator changes the regenerated text and breaks the equality below at `lake build`, for all
  inputs, not only the sampled ones; the correspondence run then supplies a concrete input.

  Parameter preconditions: where the Go constructor panics or returns `Empty()` before building the
  observable, the guard conditions are regenerated too (`RoGen.Ops.<op>M_pre`, `RoGen.Ops.guards`);
  the equality is stated under the regenerated precondition and the precondition is proved
  equivalent to the expected one (`…_pre_iff`), so a changed guard breaks the build as well.

  Not covered here (hand-written machine uses a different state encoding, or the Go body is
  outside the translated fragment — see `skipped_names` and docs/opgen.md):
   * SkipLast (ring buffer + size + index vs FIFO list), TakeLast (slice re-slicing and an index
     loop vs list), Pairwise (`count`/`last T` vs `Option α`; needs a zero value of a type
     parameter), ThrowIfEmpty (atomic `uint64` counter vs `Bool`), Dematerialize (delegates to a
     helper), ToMap (map with values), Cast (type assertion).
-/
import RoProofs.OpsGen
import RoProofs.Ops.Basic
import RoGen.OpsGen
namespace Ro.C04gen
open Ro
variable {α β κ : Type}

/-! ### operator_filter.go -/

theorem filter_gen (p : Pred α) : RoGen.Ops.filterIWithContextM p = Ro.filterM p := by
  machine_eq RoGen.Ops.filterIWithContextM Ro.filterM

/-- `Distinct` is `DistinctBy` with the identity key and the context unchanged -/
theorem distinct_gen [DecidableEq α] : RoGen.Ops.distinctM (α := α) = Ro.distinctByM (fun c v => (c, v)) := by
  machine_eq RoGen.Ops.distinctM Ro.distinctByM

theorem distinctBy_gen [DecidableEq κ] (key : Ctx → α → Ctx × κ) :
    RoGen.Ops.distinctByWithContextM key = Ro.distinctByM key := by
  machine_eq RoGen.Ops.distinctByWithContextM Ro.distinctByM

theorem ignoreElements_gen : RoGen.Ops.ignoreElementsM (α := α) = Ro.ignoreElementsM := by
  machine_eq RoGen.Ops.ignoreElementsM Ro.ignoreElementsM

/-- `Skip(count)`: the constructor panics for `count < 0`; `count : Nat` -/
theorem skip_pre_iff (count : Nat) : RoGen.Ops.skipM_pre count ↔ True := by
  simp [RoGen.Ops.skipM_pre]
theorem skip_gen (count : Nat) (_h : RoGen.Ops.skipM_pre count) : RoGen.Ops.skipM (α := α) count = Ro.skipM count := by
  machine_eq RoGen.Ops.skipM Ro.skipM

theorem skipWhile_gen (p : Pred α) : RoGen.Ops.skipWhileIWithContextM p = Ro.skipWhileM p := by
  machine_eq RoGen.Ops.skipWhileIWithContextM Ro.skipWhileM

/-- `Take(count)`: panics for `count < 0`, returns `Empty()` for `count = 0` (`Ro.emptyM`);
    the machine is the one built for `0 < count` -/
theorem take_pre_iff (count : Nat) : RoGen.Ops.takeM_pre count ↔ 0 < count := by
  simp [RoGen.Ops.takeM_pre]; omega
theorem take_gen (count : Nat) (_h : RoGen.Ops.takeM_pre count) : RoGen.Ops.takeM (α := α) count = Ro.takeM count := by
  machine_eq RoGen.Ops.takeM Ro.takeM

theorem takeWhile_gen (p : Pred α) : RoGen.Ops.takeWhileIWithContextM p = Ro.takeWhileM p := by
  machine_eq RoGen.Ops.takeWhileIWithContextM Ro.takeWhileM

theorem head_gen : RoGen.Ops.headM (α := α) = Ro.headM := by
  machine_eq RoGen.Ops.headM Ro.headM

theorem tail_gen : RoGen.Ops.tailM (α := α) = Ro.tailM := by
  machine_eq RoGen.Ops.tailM Ro.tailM

theorem first_gen (p : Pred α) : RoGen.Ops.firstIWithContextM p = Ro.firstM p := by
  machine_eq RoGen.Ops.firstIWithContextM Ro.firstM

theorem last_gen (p : Pred α) : RoGen.Ops.lastIWithContextM p = Ro.lastM p := by
  machine_eq RoGen.Ops.lastIWithContextM Ro.lastM

theorem elementAt_pre_iff (nth : Nat) : RoGen.Ops.elementAtM_pre nth ↔ True := by
  simp [RoGen.Ops.elementAtM_pre]
theorem elementAt_gen (nth : Nat) (_h : RoGen.Ops.elementAtM_pre nth) : RoGen.Ops.elementAtM (α := α) nth = Ro.elementAtM nth := by
  machine_eq RoGen.Ops.elementAtM Ro.elementAtM

theorem elementAtOrDefault_pre_iff (nth : Nat) (d : α) : RoGen.Ops.elementAtOrDefaultM_pre nth d ↔ True := by
  simp [RoGen.Ops.elementAtOrDefaultM_pre]
theorem elementAtOrDefault_gen (nth : Nat) (d : α) (_h : RoGen.Ops.elementAtOrDefaultM_pre nth d) :
    RoGen.Ops.elementAtOrDefaultM nth d = Ro.elementAtOrDefaultM nth d := by
  machine_eq RoGen.Ops.elementAtOrDefaultM Ro.elementAtOrDefaultM

/-! ### operator_transformations.go, operator_combining.go, operator_utility.go, operator_sink.go,
    operator_error_handling.go, operator_context.go -/

theorem map_gen (f : Ctx → α → Nat → Ctx × β) : RoGen.Ops.mapIWithContextM f = Ro.mapM f := by
  machine_eq RoGen.Ops.mapIWithContextM Ro.mapM

theorem mapTo_gen (b : β) : RoGen.Ops.mapToM (α := α) b = Ro.mapToM b := by
  machine_eq RoGen.Ops.mapToM Ro.mapToM

theorem mapErr_gen (f : Ctx → α → Nat → β × Ctx × Option Err) : RoGen.Ops.mapErrIWithContextM f = Ro.mapErrM f := by
  machine_eq RoGen.Ops.mapErrIWithContextM Ro.mapErrM

theorem flatten_gen : RoGen.Ops.flattenM (α := α) = Ro.flattenM := by
  machine_eq RoGen.Ops.flattenM Ro.flattenM

theorem scan_gen (f : Ctx → β → α → Nat → Ctx × β) (seed : β) : RoGen.Ops.scanIWithContextM f seed = Ro.scanM f seed := by
  machine_eq RoGen.Ops.scanIWithContextM Ro.scanM

/-- `BufferWithCount(size)`: panics for `size < 1` -/
theorem bufferWithCount_pre_iff (size : Nat) : RoGen.Ops.bufferWithCountM_pre size ↔ 1 ≤ size := by
  simp [RoGen.Ops.bufferWithCountM_pre]; omega
theorem bufferWithCount_gen (size : Nat) (_h : RoGen.Ops.bufferWithCountM_pre size) :
    RoGen.Ops.bufferWithCountM (α := α) size = Ro.bufferCountM size := by
  machine_eq RoGen.Ops.bufferWithCountM Ro.bufferCountM

theorem startWith_gen (pre : List α) : RoGen.Ops.startWithM pre = Ro.startWithM pre := by
  machine_eq RoGen.Ops.startWithM Ro.startWithM

theorem endWith_gen (suf : List α) : RoGen.Ops.endWithM suf = Ro.endWithM suf := by
  machine_eq RoGen.Ops.endWithM Ro.endWithM

/-- `TapWithContext`: the user callbacks return nothing; as far as the stream goes it is the identity -/
theorem tap_gen (n : Ctx → α → Unit) (e : Ctx → Err → Unit) (c : Ctx → Unit) :
    RoGen.Ops.tapWithContextM n e c = Ro.idM := by
  machine_eq RoGen.Ops.tapWithContextM Ro.idM

theorem tapOnSubscribe_gen (f : Ctx → Unit) : RoGen.Ops.tapOnSubscribeWithContextM (α := α) f = Ro.idM := by
  machine_eq RoGen.Ops.tapOnSubscribeWithContextM Ro.idM

theorem tapOnFinalize_gen (f : Unit) : RoGen.Ops.tapOnFinalizeM (α := α) f = Ro.idM := by
  machine_eq RoGen.Ops.tapOnFinalizeM Ro.idM

theorem materialize_gen : RoGen.Ops.materializeM (α := α) = Ro.materializeM := by
  machine_eq RoGen.Ops.materializeM Ro.materializeM

theorem toSlice_gen : RoGen.Ops.toSliceM (α := α) = Ro.toSliceM := by
  machine_eq RoGen.Ops.toSliceM Ro.toSliceM

theorem onErrorReturn_gen (v : α) : RoGen.Ops.onErrorReturnM v = Ro.onErrorReturnM v := by
  machine_eq RoGen.Ops.onErrorReturnM Ro.onErrorReturnM

/-- `ContextMapI` has no machine of its own in RoModel/Ops: it is `MapIWithContext` with a
    projection that replaces the context and keeps the value -/
theorem contextMapI_gen (project : Ctx → Nat → Ctx) :
    RoGen.Ops.contextMapIM (α := α) project = Ro.mapM (fun c v i => (project c i, v)) := by
  machine_eq RoGen.Ops.contextMapIM Ro.mapM

/-! ### operator_conditional.go, operator_math.go -/

theorem all_gen (p : Ctx → α → Nat → Bool) : RoGen.Ops.allIWithContextM p = Ro.allM p := by
  machine_eq RoGen.Ops.allIWithContextM Ro.allM

theorem contains_gen (p : Ctx → α → Nat → Bool) : RoGen.Ops.containsIWithContextM p = Ro.containsM p := by
  machine_eq RoGen.Ops.containsIWithContextM Ro.containsM

theorem find_gen (p : Ctx → α → Nat → Bool) : RoGen.Ops.findIWithContextM p = Ro.findM p := by
  machine_eq RoGen.Ops.findIWithContextM Ro.findM

theorem defaultIfEmpty_gen (dc : Ctx) (d : α) : RoGen.Ops.defaultIfEmptyWithContextM dc d = Ro.defaultIfEmptyM dc d := by
  machine_eq RoGen.Ops.defaultIfEmptyWithContextM Ro.defaultIfEmptyM

theorem count_gen : RoGen.Ops.countM (α := α) = Ro.countM := by
  machine_eq RoGen.Ops.countM Ro.countM

theorem sum_gen : RoGen.Ops.sumM = Ro.sumM := by
  machine_eq RoGen.Ops.sumM Ro.sumM

theorem min_gen : RoGen.Ops.minM = Ro.minM := by
  machine_eq RoGen.Ops.minM Ro.minM

/-- `Max` as written, including the unguarded emission at completion (zero value, nil context) -/
theorem max_gen : RoGen.Ops.maxM = Ro.maxM := by
  machine_eq RoGen.Ops.maxM Ro.maxM

/-- `Clamp(lower, upper)`: panics for `lower > upper` -/
theorem clamp_pre_iff (lo hi : Int) : RoGen.Ops.clampM_pre lo hi ↔ lo ≤ hi := by
  simp [RoGen.Ops.clampM_pre]
theorem clamp_gen (lo hi : Int) (_h : RoGen.Ops.clampM_pre lo hi) : RoGen.Ops.clampM lo hi = Ro.clampM lo hi := by
  machine_eq RoGen.Ops.clampM Ro.clampM

theorem reduce_gen (f : Ctx → β → α → Nat → Ctx × β) (seed : β) : RoGen.Ops.reduceIWithContextM f seed = Ro.reduceM f seed := by
  machine_eq RoGen.Ops.reduceIWithContextM Ro.reduceM

/-! ### what the equalities buy: the C04 theorems hold for the regenerated machines -/

theorem take_spec_gen (n : Nat) (h : RoGen.Ops.takeM_pre n) (mode : SrcMode) (sub : Ctx) (raw : List (Notif α)) :
    (runOp (RoGen.Ops.takeM n) mode sub raw).out = Spec.take n (values raw) (ending raw) := by
  rw [take_gen n h]; exact take_spec n ((take_pre_iff n).1 h) mode sub raw

theorem map_spec_gen (f : Ctx → α → Nat → Ctx × β) (mode : SrcMode) (sub : Ctx) (raw : List (Notif α)) :
    (runOp (RoGen.Ops.mapIWithContextM f) mode sub raw).out = Spec.map f (values raw) (ending raw) := by
  rw [map_gen f]; exact map_spec f mode sub raw

-- non-vacuity: the regenerated machines compute
example : (runOp (RoGen.Ops.takeM 2) .sync {} [.next {} (1 : Int), .next {} 2, .next {} 3, .complete {}]).out
    = [.next {} 1, .next {} 2, .complete {}] := by decide
example : (runOp RoGen.Ops.maxM .sync {} [.complete {}]).out = [.next Ctx.nil 0, .complete {}] := by decide
example : (runOp (RoGen.Ops.skipM 1) .hot {} [.next {} (1 : Int), .next {} 2, .error {} (.user 1), .next {} 3]).out
    = [.next {} 2, .error {} (.user 1)] := by decide

/-! ### the regenerated bookkeeping: which operators are translated, which fell out of the
    fragment, which guards the constructors have. An operator silently leaving the fragment after a
    code change (or a changed guard) breaks one of these. -/

theorem translated_names : RoGen.Ops.translated =
    ["StartWith", "EndWith", "AllIWithContext", "ContainsIWithContext", "FindIWithContext",
     "DefaultIfEmptyWithContext", "ContextMapI", "OnErrorReturn", "FilterIWithContext", "Distinct",
     "DistinctByWithContext", "IgnoreElements", "Skip", "SkipWhileIWithContext", "Take",
     "TakeWhileIWithContext", "Head", "Tail", "FirstIWithContext", "LastIWithContext", "ElementAt",
     "ElementAtOrDefault", "Count", "Sum", "Min", "Max", "Clamp", "ReduceIWithContext", "ToSlice",
     "MapIWithContext", "MapTo", "MapErrIWithContext", "Flatten", "ScanIWithContext", "BufferWithCount",
     "TapWithContext", "TapOnSubscribeWithContext", "TapOnFinalize", "Materialize"] := by decide

theorem skipped_names : RoGen.Ops.skipped.map (·.1) =
    ["MergeAll", "MergeMapIWithContext", "CombineLatestWith1", "CombineLatestWith2", "CombineLatestWith3",
     "CombineLatestWith4", "CombineLatestAll", "ConcatAll", "Pairwise", "RaceWith", "ZipWith1", "ZipWith2",
     "ZipWith3", "ZipWith4", "ZipWith5", "ZipAll", "SequenceEqual", "ShareWithConfig", "ContextWithValue",
     "ContextWithTimeout", "ContextWithDeadline", "ContextReset", "ThrowOnContextCancel", "Catch",
     "OnErrorResumeNextWith", "RetryWithConfig", "ThrowIfEmpty", "DoWhileIWithContext", "WhileIWithContext",
     "SkipLast", "SkipUntil", "TakeLast", "TakeUntil", "Average", "Round", "Abs", "Floor", "Ceil",
     "ceilWithInfiniteNegativePrecision", "floorWithInfiniteNegativePrecision", "precisionRound",
     "roundWithLargePositivePrecision", "roundWithLargeNegativePrecision", "Trunc", "ToMapIWithContext",
     "ToChannel", "FlatMapIWithContext", "Cast", "GroupByIWithContext", "BufferWhen", "BufferWithTimeOrCount",
     "WindowWhen", "SampleWhen", "ThrottleWhen", "ThrottleTime", "TimeInterval", "Timestamp", "Delay",
     "DelayEach", "RepeatWith", "Timeout", "Dematerialize", "detachOn", "Serialize"] := by decide

theorem guards_as_expected : RoGen.Ops.guards =
    [("Skip", [("panic", "count < 0")]),
     ("Take", [("panic", "count < 0"), ("empty", "count == 0")]),
     ("ElementAt", [("panic", "nth < 0")]),
     ("ElementAtOrDefault", [("panic", "nth < 0")]),
     ("Clamp", [("panic", "lower > upper")]),
     ("BufferWithCount", [("panic", "size < 1")])] := by decide

end Ro.C04gen

#print axioms Ro.C04gen.filter_gen
#print axioms Ro.C04gen.distinct_gen
#print axioms Ro.C04gen.distinctBy_gen
#print axioms Ro.C04gen.ignoreElements_gen
#print axioms Ro.C04gen.skip_pre_iff
#print axioms Ro.C04gen.skip_gen
#print axioms Ro.C04gen.skipWhile_gen
#print axioms Ro.C04gen.take_pre_iff
#print axioms Ro.C04gen.take_gen
#print axioms Ro.C04gen.takeWhile_gen
#print axioms Ro.C04gen.head_gen
#print axioms Ro.C04gen.tail_gen
#print axioms Ro.C04gen.first_gen
#print axioms Ro.C04gen.last_gen
#print axioms Ro.C04gen.elementAt_pre_iff
#print axioms Ro.C04gen.elementAt_gen
#print axioms Ro.C04gen.elementAtOrDefault_pre_iff
#print axioms Ro.C04gen.elementAtOrDefault_gen
#print axioms Ro.C04gen.map_gen
#print axioms Ro.C04gen.mapTo_gen
#print axioms Ro.C04gen.mapErr_gen
#print axioms Ro.C04gen.flatten_gen
#print axioms Ro.C04gen.scan_gen
#print axioms Ro.C04gen.bufferWithCount_pre_iff
#print axioms Ro.C04gen.bufferWithCount_gen
#print axioms Ro.C04gen.startWith_gen
#print axioms Ro.C04gen.endWith_gen
#print axioms Ro.C04gen.tap_gen
#print axioms Ro.C04gen.tapOnSubscribe_gen
#print axioms Ro.C04gen.tapOnFinalize_gen
#print axioms Ro.C04gen.materialize_gen
#print axioms Ro.C04gen.toSlice_gen
#print axioms Ro.C04gen.onErrorReturn_gen
#print axioms Ro.C04gen.contextMapI_gen
#print axioms Ro.C04gen.all_gen
#print axioms Ro.C04gen.contains_gen
#print axioms Ro.C04gen.find_gen
#print axioms Ro.C04gen.defaultIfEmpty_gen
#print axioms Ro.C04gen.count_gen
#print axioms Ro.C04gen.sum_gen
#print axioms Ro.C04gen.min_gen
#print axioms Ro.C04gen.max_gen
#print axioms Ro.C04gen.clamp_pre_iff
#print axioms Ro.C04gen.clamp_gen
#print axioms Ro.C04gen.reduce_gen
#print axioms Ro.C04gen.take_spec_gen
#print axioms Ro.C04gen.map_spec_gen
#print axioms Ro.C04gen.translated_names
#print axioms Ro.C04gen.skipped_names
#print axioms Ro.C04gen.guards_as_expected

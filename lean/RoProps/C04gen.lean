/-
  C04 (generated machines) — the tie between model and code, tightened by a translator.

  `go/extract` (opgen.go) re-translates, on every run, the Go source of every single-source
  template operator into a Lean `Machine` (lean/RoGen/OpsGen.lean, namespace `RoGen.Ops`).
  This file proves, for ALL parameters, that each regenerated machine EQUALS the hand-written
  machine of lean/RoModel/Ops/*.lean — the machine the C04 property theorems (machine =
  specification, for all raw scripts and source modes) are about. A change to the Go code of such
  an operator changes the regenerated text and breaks the equality below at `lake build`, for all
  inputs, not only the sampled ones; the correspondence run then supplies a concrete input.

  Parameter preconditions: where the Go constructor panics or returns `Empty()` before building the
  observable, the guard conditions are regenerated too (`RoGen.Ops.<op>M_pre`, `RoGen.Ops.guards`);
  the equality is stated under the regenerated precondition and the precondition is proved
  equivalent to the expected one (`…_pre_iff`), so a changed guard breaks the build as well.

  Where the natural state encoding of the Go code differs from the hand-written machine's (ring
  buffer vs FIFO, counter vs flag, zero value vs `Option`, float accumulator vs exact integer sum,
  no index vs index), the regenerated machine keeps the Go encoding and is proved to SIMULATE the
  hand-written machine (`Machine.Sim`, RoProofs/OpsGen.lean), which gives the same trace, drops,
  steps and gates for every raw script, mode and subscription context (`Machine.Sim.run`), so the
  specification theorems transfer (`…_spec_gen`).

  Still outside the fragment although a hand-written machine exists: Dematerialize (delegates to
  helpers that take function values), TimeInterval / Timestamp (read the clock), the `Tap` effect
  log (`tapM`'s state; `tap_sim` covers the stream). See `skipped_names` and docs/opgen.md.
-/
import RoProofs.OpsGen
import RoProofs.Ops.Basic
import RoProofs.Ops.FilterSpecs
import RoProofs.Ops.TransformSpecs
import RoProofs.Ops.MoreSpecs
import RoGen.OpsGen
namespace Ro.C04gen
open Ro
variable {α β κ φ δ τ ι : Type}

/-! ### operator_filter.go -/

theorem filter_gen (p : Pred α) : RoGen.Ops.filterIWithContextM p = Ro.filterM p := by
  machine_eq RoGen.Ops.filterIWithContextM Ro.filterM

/-- `Distinct` is `DistinctBy` with the identity key and the context unchanged -/
theorem distinct_gen [DecidableEq α] : RoGen.Ops.distinctM (α := α) = Ro.distinctByM (fun c v => (c, v)) := by
  machine_eq RoGen.Ops.distinctM Ro.distinctByM

theorem distinctBy_gen [DecidableEq κ] (key : Ctx → α → Ctx × κ) :
    RoGen.Ops.distinctByWithContextM key = Ro.distinctByM key := by
  machine_eq RoGen.Ops.distinctByWithContextM Ro.distinctByM

theorem ignoreElements_gen : RoGen.Ops.ignoreElementsM (α := α) = Ro.ignoreElementsM := by
  machine_eq RoGen.Ops.ignoreElementsM Ro.ignoreElementsM

/-- `Skip(count)`: the constructor panics for `count < 0`; `count : Nat` -/
theorem skip_pre_iff (count : Nat) : RoGen.Ops.skipM_pre count ↔ True := by
  simp [RoGen.Ops.skipM_pre]
theorem skip_gen (count : Nat) (_h : RoGen.Ops.skipM_pre count) : RoGen.Ops.skipM (α := α) count = Ro.skipM count := by
  machine_eq RoGen.Ops.skipM Ro.skipM

theorem skipWhile_gen (p : Pred α) : RoGen.Ops.skipWhileIWithContextM p = Ro.skipWhileM p := by
  machine_eq RoGen.Ops.skipWhileIWithContextM Ro.skipWhileM

/-- `Take(count)`: panics for `count < 0`, returns `Empty()` for `count = 0` (`Ro.emptyM`);
    the machine is the one built for `0 < count` -/
theorem take_pre_iff (count : Nat) : RoGen.Ops.takeM_pre count ↔ 0 < count := by
  simp [RoGen.Ops.takeM_pre]; omega
theorem take_gen (count : Nat) (_h : RoGen.Ops.takeM_pre count) : RoGen.Ops.takeM (α := α) count = Ro.takeM count := by
  machine_eq RoGen.Ops.takeM Ro.takeM

theorem takeWhile_gen (p : Pred α) : RoGen.Ops.takeWhileIWithContextM p = Ro.takeWhileM p := by
  machine_eq RoGen.Ops.takeWhileIWithContextM Ro.takeWhileM

theorem head_gen : RoGen.Ops.headM (α := α) = Ro.headM := by
  machine_eq RoGen.Ops.headM Ro.headM

theorem tail_gen : RoGen.Ops.tailM (α := α) = Ro.tailM := by
  machine_eq RoGen.Ops.tailM Ro.tailM

theorem first_gen (p : Pred α) : RoGen.Ops.firstIWithContextM p = Ro.firstM p := by
  machine_eq RoGen.Ops.firstIWithContextM Ro.firstM

theorem last_gen (p : Pred α) : RoGen.Ops.lastIWithContextM p = Ro.lastM p := by
  machine_eq RoGen.Ops.lastIWithContextM Ro.lastM

theorem elementAt_pre_iff (nth : Nat) : RoGen.Ops.elementAtM_pre nth ↔ True := by
  simp [RoGen.Ops.elementAtM_pre]
theorem elementAt_gen (nth : Nat) (_h : RoGen.Ops.elementAtM_pre nth) : RoGen.Ops.elementAtM (α := α) nth = Ro.elementAtM nth := by
  machine_eq RoGen.Ops.elementAtM Ro.elementAtM

theorem elementAtOrDefault_pre_iff (nth : Nat) (d : α) : RoGen.Ops.elementAtOrDefaultM_pre nth d ↔ True := by
  simp [RoGen.Ops.elementAtOrDefaultM_pre]
theorem elementAtOrDefault_gen (nth : Nat) (d : α) (_h : RoGen.Ops.elementAtOrDefaultM_pre nth d) :
    RoGen.Ops.elementAtOrDefaultM nth d = Ro.elementAtOrDefaultM nth d := by
  machine_eq RoGen.Ops.elementAtOrDefaultM Ro.elementAtOrDefaultM

/-! ### operator_transformations.go, operator_combining.go, operator_utility.go, operator_sink.go,
    operator_error_handling.go, operator_context.go -/

theorem map_gen (f : Ctx → α → Nat → Ctx × β) : RoGen.Ops.mapIWithContextM f = Ro.mapM f := by
  machine_eq RoGen.Ops.mapIWithContextM Ro.mapM

theorem mapTo_gen (b : β) : RoGen.Ops.mapToM (α := α) b = Ro.mapToM b := by
  machine_eq RoGen.Ops.mapToM Ro.mapToM

theorem mapErr_gen (f : Ctx → α → Nat → β × Ctx × Option Err) : RoGen.Ops.mapErrIWithContextM f = Ro.mapErrM f := by
  machine_eq RoGen.Ops.mapErrIWithContextM Ro.mapErrM

theorem flatten_gen : RoGen.Ops.flattenM (α := α) = Ro.flattenM := by
  machine_eq RoGen.Ops.flattenM Ro.flattenM

theorem scan_gen (f : Ctx → β → α → Nat → Ctx × β) (seed : β) : RoGen.Ops.scanIWithContextM f seed = Ro.scanM f seed := by
  machine_eq RoGen.Ops.scanIWithContextM Ro.scanM

/-- `BufferWithCount(size)`: panics for `size < 1` -/
theorem bufferWithCount_pre_iff (size : Nat) : RoGen.Ops.bufferWithCountM_pre size ↔ 1 ≤ size := by
  simp [RoGen.Ops.bufferWithCountM_pre]; omega
theorem bufferWithCount_gen (size : Nat) (_h : RoGen.Ops.bufferWithCountM_pre size) :
    RoGen.Ops.bufferWithCountM (α := α) size = Ro.bufferCountM size := by
  machine_eq RoGen.Ops.bufferWithCountM Ro.bufferCountM

theorem startWith_gen (pre : List α) : RoGen.Ops.startWithM pre = Ro.startWithM pre := by
  machine_eq RoGen.Ops.startWithM Ro.startWithM

theorem endWith_gen (suf : List α) : RoGen.Ops.endWithM suf = Ro.endWithM suf := by
  machine_eq RoGen.Ops.endWithM Ro.endWithM

/-- `TapWithContext`: the user callbacks return nothing; as far as the stream goes it is the identity -/
theorem tap_gen (n : Ctx → α → Unit) (e : Ctx → Err → Unit) (c : Ctx → Unit) :
    RoGen.Ops.tapWithContextM n e c = Ro.idM := by
  machine_eq RoGen.Ops.tapWithContextM Ro.idM

theorem tapOnSubscribe_gen (f : Ctx → Unit) : RoGen.Ops.tapOnSubscribeWithContextM (α := α) f = Ro.idM := by
  machine_eq RoGen.Ops.tapOnSubscribeWithContextM Ro.idM

theorem tapOnFinalize_gen (f : Unit) : RoGen.Ops.tapOnFinalizeM (α := α) f = Ro.idM := by
  machine_eq RoGen.Ops.tapOnFinalizeM Ro.idM

theorem materialize_gen : RoGen.Ops.materializeM (α := α) = Ro.materializeM := by
  machine_eq RoGen.Ops.materializeM Ro.materializeM

theorem toSlice_gen : RoGen.Ops.toSliceM (α := α) = Ro.toSliceM := by
  machine_eq RoGen.Ops.toSliceM Ro.toSliceM

theorem onErrorReturn_gen (v : α) : RoGen.Ops.onErrorReturnM v = Ro.onErrorReturnM v := by
  machine_eq RoGen.Ops.onErrorReturnM Ro.onErrorReturnM

/-- `ContextMapI` is `MapIWithContext` with a projection that replaces the context and keeps the
    value (its own machine `contextMapM` of RoModel/Ops/More.lean: `contextMapI_gen` below) -/
theorem contextMapI_as_map (project : Ctx → Nat → Ctx) :
    RoGen.Ops.contextMapIM (α := α) project = Ro.mapM (fun c v i => (project c i, v)) := by
  machine_eq RoGen.Ops.contextMapIM Ro.mapM

/-! ### operator_conditional.go, operator_math.go -/

theorem all_gen (p : Ctx → α → Nat → Bool) : RoGen.Ops.allIWithContextM p = Ro.allM p := by
  machine_eq RoGen.Ops.allIWithContextM Ro.allM

theorem contains_gen (p : Ctx → α → Nat → Bool) : RoGen.Ops.containsIWithContextM p = Ro.containsM p := by
  machine_eq RoGen.Ops.containsIWithContextM Ro.containsM

theorem find_gen (p : Ctx → α → Nat → Bool) : RoGen.Ops.findIWithContextM p = Ro.findM p := by
  machine_eq RoGen.Ops.findIWithContextM Ro.findM

theorem defaultIfEmpty_gen (dc : Ctx) (d : α) : RoGen.Ops.defaultIfEmptyWithContextM dc d = Ro.defaultIfEmptyM dc d := by
  machine_eq RoGen.Ops.defaultIfEmptyWithContextM Ro.defaultIfEmptyM

theorem count_gen : RoGen.Ops.countM (α := α) = Ro.countM := by
  machine_eq RoGen.Ops.countM Ro.countM

theorem sum_gen : RoGen.Ops.sumM = Ro.sumM := by
  machine_eq RoGen.Ops.sumM Ro.sumM

theorem min_gen : RoGen.Ops.minM = Ro.minM := by
  machine_eq RoGen.Ops.minM Ro.minM

/-- `Max` as written, including the unguarded emission at completion (zero value, nil context) -/
theorem max_gen : RoGen.Ops.maxM = Ro.maxM := by
  machine_eq RoGen.Ops.maxM Ro.maxM

/-- `Clamp(lower, upper)`: panics for `lower > upper` -/
theorem clamp_pre_iff (lo hi : Int) : RoGen.Ops.clampM_pre lo hi ↔ lo ≤ hi := by
  simp [RoGen.Ops.clampM_pre]
theorem clamp_gen (lo hi : Int) (_h : RoGen.Ops.clampM_pre lo hi) : RoGen.Ops.clampM lo hi = Ro.clampM lo hi := by
  machine_eq RoGen.Ops.clampM Ro.clampM

theorem reduce_gen (f : Ctx → β → α → Nat → Ctx × β) (seed : β) : RoGen.Ops.reduceIWithContextM f seed = Ro.reduceM f seed := by
  machine_eq RoGen.Ops.reduceIWithContextM Ro.reduceM


/-! ### operators added to the fragment later: further equalities (RoModel/Ops/More.lean) -/

theorem contextMapI_gen (project : Ctx → Nat → Ctx) : RoGen.Ops.contextMapIM (α := α) project = Ro.contextMapM project := by
  machine_eq RoGen.Ops.contextMapIM Ro.contextMapM

theorem contextReset_gen (nc : Ctx) :
    RoGen.Ops.contextResetM (α := α) nc = Ro.contextResetM (if nc.isNil then Ctx.bg else nc) := by
  machine_eq RoGen.Ops.contextResetM Ro.contextResetM

theorem contextReset_gen_nonnil (nc : Ctx) (h : nc.isNil = false) : RoGen.Ops.contextResetM (α := α) nc = Ro.contextResetM nc := by
  rw [contextReset_gen, h]; rfl

theorem contextWithValue_gen (k v : ι) (wv : Ctx → ι → ι → Ctx) (m : Nat) (h : ∀ c, wv c k v = c.tag m) :
    RoGen.Ops.contextWithValueM (α := α) k v wv = Ro.ctxWithValueM m := by
  apply Machine.ext' <;> intros <;> simp [RoGen.Ops.contextWithValueM, Ro.ctxWithValueM, h]

theorem contextWithValue_up_gen (k v : ι) (wv : Ctx → ι → ι → Ctx) (m : Nat) (h : ∀ c, wv c k v = c.tag m) (sub : Ctx) :
    RoGen.Ops.contextWithValueM_up k v wv sub = Ro.ctxWithValueUp m sub := by
  simp [RoGen.Ops.contextWithValueM_up, Ro.ctxWithValueUp, h]

theorem cast_gen (ok : α → Option β) (err : Err) : RoGen.Ops.castM ok err = Ro.castM ok err := by
  machine_eq RoGen.Ops.castM Ro.castM

theorem toMap_gen [DecidableEq κ] (kv : Ctx → α → Nat → κ × β) : RoGen.Ops.toMapIWithContextM kv = Ro.toMapM kv := by
  machine_eq RoGen.Ops.toMapIWithContextM Ro.toMapM

theorem serialize_gen : RoGen.Ops.serializeM (α := α) = Ro.idM := by
  machine_eq RoGen.Ops.serializeM Ro.idM
theorem delayEach_gen (d : δ) : RoGen.Ops.delayEachM (α := α) d = Ro.idM := by
  machine_eq RoGen.Ops.delayEachM Ro.idM


/-! ### refinements: the regenerated machine keeps the Go code's own state encoding and SIMULATES
    the hand-written machine (`Machine.Sim`): same emissions from related states, hence
    (`Machine.Sim.run`) the same trace, drops, steps and gates for every raw script, source mode and
    subscription context — so the C04 specification theorems transfer (`…_spec_gen`). -/

theorem contextWithTimeout_sim (d : δ) (wt : Ctx → δ → Ctx) :
    (RoGen.Ops.contextWithTimeoutM (α := α) d wt).Sim (fun _ _ => True) (Ro.contextMapM (fun c _ => wt c d)) := by
  sim_any RoGen.Ops.contextWithTimeoutM Ro.contextMapM
theorem contextWithDeadline_sim (d : τ) (wd : Ctx → τ → Ctx) :
    (RoGen.Ops.contextWithDeadlineM (α := α) d wd).Sim (fun _ _ => True) (Ro.contextMapM (fun c _ => wd c d)) := by
  sim_any RoGen.Ops.contextWithDeadlineM Ro.contextMapM
theorem round_sim (f : φ → φ) : (RoGen.Ops.roundM f).Sim (fun _ _ => True) (Ro.mapM (fun c v _ => (c, f v))) := by
  sim_any RoGen.Ops.roundM Ro.mapM
theorem abs_sim (f : φ → φ) : (RoGen.Ops.absM f).Sim (fun _ _ => True) (Ro.mapM (fun c v _ => (c, f v))) := by
  sim_any RoGen.Ops.absM Ro.mapM
theorem floor_sim (f : φ → φ) : (RoGen.Ops.floorM f).Sim (fun _ _ => True) (Ro.mapM (fun c v _ => (c, f v))) := by
  sim_any RoGen.Ops.floorM Ro.mapM
theorem ceil_sim (f : φ → φ) : (RoGen.Ops.ceilM f).Sim (fun _ _ => True) (Ro.mapM (fun c v _ => (c, f v))) := by
  sim_any RoGen.Ops.ceilM Ro.mapM
theorem trunc_sim (f : φ → φ) : (RoGen.Ops.truncM f).Sim (fun _ _ => True) (Ro.mapM (fun c v _ => (c, f v))) := by
  sim_any RoGen.Ops.truncM Ro.mapM
theorem tap_sim (n : Ctx → α → Unit) (e : Ctx → Err → Unit) (c : Ctx → Unit) (sel : Notif α → Bool) :
    (RoGen.Ops.tapWithContextM n e c).Sim (fun _ _ => True) (Ro.tapM sel) := by
  sim_any RoGen.Ops.tapWithContextM Ro.tapM

theorem pairwise_sim [Inhabited α] :
    (RoGen.Ops.pairwiseM (α := α)).Sim (fun s o => (s.1 = 0 ∧ o = none) ∨ (0 < s.1 ∧ o = some s.2)) Ro.pairwiseM := by
  refine ⟨Or.inl ⟨rfl, rfl⟩, rfl, fun s1 s2 c h => ⟨h, rfl⟩, fun s1 s2 c v h => ?_, fun s1 s2 c e h => ⟨h, rfl⟩, fun s1 s2 c h => ⟨h, rfl⟩⟩
  simp only [RoGen.Ops.pairwiseM, Ro.pairwiseM]
  rcases h with ⟨h0, rfl⟩ | ⟨h0, rfl⟩
  · simp [h0]
  · simp [h0]

theorem throwIfEmpty_sim (e : Err) :
    (RoGen.Ops.throwIfEmptyM (α := α) e).Sim (fun n b => b = decide (0 < n)) (Ro.throwIfEmptyM e) := by
  refine ⟨rfl, rfl, fun s1 s2 c h => ⟨h, rfl⟩, fun s1 s2 c v h => ?_, fun s1 s2 c e h => ⟨h, rfl⟩, fun s1 s2 c h => ?_⟩
  · simp [RoGen.Ops.throwIfEmptyM, Ro.throwIfEmptyM]
  · subst h
    simp only [RoGen.Ops.throwIfEmptyM, Ro.throwIfEmptyM]
    by_cases h0 : s1 = 0 <;> simp [h0]

theorem average_sim (ofInt : Int → φ) (add : φ → φ → φ) (nan : φ) (ofNat : Nat → φ) (div : φ → φ → φ)
    (hadd : ∀ a b, add (ofInt a) (ofInt b) = ofInt (a + b)) :
    (RoGen.Ops.averageM ofInt add nan ofNat div).Sim (fun s1 s2 => s1.1 = ofInt s2.1 ∧ s1.2 = s2.2)
      (Ro.averageM (fun s n => div (ofInt s) (ofNat n)) nan) := by
  refine ⟨⟨rfl, rfl⟩, rfl, fun s1 s2 c h => ⟨h, rfl⟩, fun s1 s2 c v h => ?_, fun s1 s2 c e h => ⟨h, rfl⟩, fun s1 s2 c h => ?_⟩
  · simp [RoGen.Ops.averageM, Ro.averageM, h.1, h.2, hadd]
  · simp only [RoGen.Ops.averageM, Ro.averageM]
    rw [h.1, h.2]
    by_cases h0 : s2.2 = 0 <;> simp [h0, h]
/-- `TakeLast`: the Go buffer *is* the hand-written list; the index only tells whether it is full -/
theorem takeLast_pre_iff (count : Nat) : RoGen.Ops.takeLastM_pre count ↔ 0 < count := by
  simp [RoGen.Ops.takeLastM_pre]; omega
theorem skipLast_pre_iff (count : Nat) : RoGen.Ops.skipLastM_pre count ↔ 0 < count := by
  simp [RoGen.Ops.skipLastM_pre]; omega

theorem takeLast_sim [Inhabited α] (count : Nat) (hc : 0 < count) :
    (RoGen.Ops.takeLastM (α := α) count).Sim (fun s q => s.1 = q ∧ q.length = min s.2 count) (Ro.takeLastM count) := by
  refine ⟨⟨rfl, by simp [RoGen.Ops.takeLastM, Ro.takeLastM]⟩, rfl, fun s1 s2 c h => ⟨h, rfl⟩, fun s1 s2 c v h => ?_, fun s1 s2 c e h => ⟨h, rfl⟩, fun s1 s2 c h => ?_⟩
  · obtain ⟨h1, h2⟩ := h
    simp only [RoGen.Ops.takeLastM, Ro.takeLastM]
    subst h1
    by_cases hfull : s1.2 ≥ count
    · have : s1.1.length ≥ count := by omega
      simp [hfull, this]; omega
    · have : ¬ s1.1.length ≥ count := by omega
      simp [hfull, this]; omega
  · obtain ⟨h1, h2⟩ := h
    simp only [RoGen.Ops.takeLastM, Ro.takeLastM]
    subst h1
    refine ⟨⟨rfl, h2⟩, ?_⟩
    have hl : min count s1.2 = s1.1.length := by omega
    rw [hl]
    congr 1
    exact map_range_getD s1.1 (Ctx.nil, default) (fun p => Notif.next p.1 p.2)

/-- the relation between `SkipLast`'s ring buffer (buffer, size, index) and the FIFO `q` of the
    hand-written machine: while filling, `q` is the written prefix; once full, `q` is the buffer
    rotated to start at `index` -/
def skipLastRel (count : Nat) (s : List (Ctx × α) × Nat × Nat) (q : List (Ctx × α)) : Prop :=
  s.1.length = count ∧ s.2.2 < count ∧ q.length = s.2.1 ∧
    ((s.2.1 < count ∧ s.2.2 = s.2.1 ∧ q = s.1.take s.2.1) ∨ (s.2.1 = count ∧ q = s.1.drop s.2.2 ++ s.1.take s.2.2))

theorem skipLast_sim [Inhabited α] (count : Nat) (hc : 0 < count) :
    (RoGen.Ops.skipLastM (α := α) count).Sim (skipLastRel count) (Ro.skipLastM count) := by
  refine ⟨?_, rfl, fun s1 s2 c h => ⟨h, rfl⟩, fun s1 s2 c v h => ?_, fun s1 s2 c e h => ⟨h, rfl⟩, fun s1 s2 c h => ⟨h, rfl⟩⟩
  · simp [skipLastRel, RoGen.Ops.skipLastM, Ro.skipLastM, hc]
  · obtain ⟨buf, size, idx⟩ := s1
    obtain ⟨hlen, hidx, hq, hcase⟩ := h
    simp only at hlen hidx hq hcase
    simp only [RoGen.Ops.skipLastM, Ro.skipLastM]
    rcases hcase with ⟨hs, hi, hqe⟩ | ⟨hs, hqe⟩
    · -- filling
      subst hi
      have hql : s2.length < count := by omega
      simp only [hs, hql, if_true]
      refine ⟨⟨by simp [hlen], Nat.mod_lt _ hc, by simp [hq], ?_⟩, by first | rfl | trivial⟩
      by_cases hnext : idx + 1 < count
      · left
        refine ⟨hnext, Nat.mod_eq_of_lt hnext, ?_⟩
        simp only []
        rw [take_succ_set _ _ _ (by omega), hqe]
      · right
        have he : idx + 1 = count := by omega
        refine ⟨he, ?_⟩
        simp only []
        rw [he, Nat.mod_self]
        simp only [List.drop_zero, List.take_zero, List.append_nil]
        rw [set_last _ _ _ (by omega), hqe]
    · -- full
      subst hs
      have hql : ¬ s2.length < size := by omega
      have hsz : ¬ size < size := by omega
      simp only [hsz, hql, if_false]
      rw [drop_eq_getD_cons buf idx (Ctx.nil, default) (by omega)] at hqe
      subst hqe
      simp only [List.cons_append]
      refine ⟨⟨by simp [hlen], Nat.mod_lt _ hc, by simp at hq ⊢; omega, ?_⟩, by first | rfl | trivial⟩
      right
      refine ⟨rfl, ?_⟩
      simp only []
      by_cases hnext : idx + 1 < size
      · rw [Nat.mod_eq_of_lt hnext, drop_succ_set, take_succ_set _ _ _ (by omega)]
        simp
      · have he : idx + 1 = size := by omega
        rw [he, Nat.mod_self]
        simp only [List.drop_zero, List.take_zero, List.append_nil]
        rw [set_last _ _ _ (by omega), List.drop_of_length_le (by omega)]
        simp

/-! ### what the equalities buy: the C04 theorems hold for the regenerated machines -/

theorem take_spec_gen (n : Nat) (h : RoGen.Ops.takeM_pre n) (mode : SrcMode) (sub : Ctx) (raw : List (Notif α)) :
    (runOp (RoGen.Ops.takeM n) mode sub raw).out = Spec.take n (values raw) (ending raw) := by
  rw [take_gen n h]; exact take_spec n ((take_pre_iff n).1 h) mode sub raw

theorem map_spec_gen (f : Ctx → α → Nat → Ctx × β) (mode : SrcMode) (sub : Ctx) (raw : List (Notif α)) :
    (runOp (RoGen.Ops.mapIWithContextM f) mode sub raw).out = Spec.map f (values raw) (ending raw) := by
  rw [map_gen f]; exact map_spec f mode sub raw


/-! ### what the refinements buy: the specification theorems of the hand-written machines hold for
    the regenerated ones (under the regenerated parameter preconditions) -/

theorem skipLast_spec_gen [Inhabited α] (n : Nat) (h : RoGen.Ops.skipLastM_pre n) (mode : SrcMode) (sub : Ctx) (raw : List (Notif α)) :
    (runOp (RoGen.Ops.skipLastM n) mode sub raw).out = Spec.skipLast n (values raw) (ending raw) := by
  rw [(skipLast_sim n ((skipLast_pre_iff n).1 h)).out]; exact skipLast_spec n ((skipLast_pre_iff n).1 h) mode sub raw

theorem takeLast_spec_gen [Inhabited α] (n : Nat) (h : RoGen.Ops.takeLastM_pre n) (mode : SrcMode) (sub : Ctx) (raw : List (Notif α)) :
    (runOp (RoGen.Ops.takeLastM n) mode sub raw).out = Spec.takeLast n (values raw) (ending raw) := by
  rw [(takeLast_sim n ((takeLast_pre_iff n).1 h)).out]; exact takeLast_spec n ((takeLast_pre_iff n).1 h) mode sub raw

theorem pairwise_spec_gen [Inhabited α] (mode : SrcMode) (sub : Ctx) (raw : List (Notif α)) :
    (runOp (RoGen.Ops.pairwiseM (α := α)) mode sub raw).out = Spec.pairwise (values raw) (ending raw) := by
  rw [pairwise_sim.out]; exact pairwise_spec mode sub raw

theorem throwIfEmpty_spec_gen (err : Err) (mode : SrcMode) (sub : Ctx) (raw : List (Notif α)) :
    (runOp (RoGen.Ops.throwIfEmptyM (α := α) err) mode sub raw).out = Spec.throwIfEmpty err (values raw) (ending raw) := by
  rw [(throwIfEmpty_sim err).out]; exact throwIfEmpty_spec err mode sub raw

/-- `Average`: floats are uninterpreted; the hand-written machine sums integers exactly, so the
    transfer needs float addition to be exact on the integers summed (`hadd`) -/
theorem average_spec_gen (ofInt : Int → φ) (add : φ → φ → φ) (nan : φ) (ofNat : Nat → φ) (div : φ → φ → φ)
    (hadd : ∀ a b, add (ofInt a) (ofInt b) = ofInt (a + b)) (mode : SrcMode) (sub : Ctx) (raw : List (Notif Int)) :
    (runOp (RoGen.Ops.averageM ofInt add nan ofNat div) mode sub raw).out
      = Spec.average (fun s n => div (ofInt s) (ofNat n)) nan (values raw) (ending raw) := by
  rw [(average_sim ofInt add nan ofNat div hadd).out]; exact average_spec _ nan mode sub raw

theorem cast_spec_gen (ok : α → Option β) (err : Err) (mode : SrcMode) (sub : Ctx) (raw : List (Notif α)) :
    (runOp (RoGen.Ops.castM ok err) mode sub raw).out = (runOp (Ro.castM ok err) mode sub raw).out := by
  rw [cast_gen]

/-- the whole observable run state agrees, not only the trace: refused notifications and steps too -/
theorem skipLast_run_gen [Inhabited α] (n : Nat) (hn : 0 < n) (mode : SrcMode) (sub : Ctx) (raw : List (Notif α)) :
    (runOp (RoGen.Ops.skipLastM n) mode sub raw).drops = (runOp (Ro.skipLastM n) mode sub raw).drops ∧
    (runOp (RoGen.Ops.skipLastM n) mode sub raw).steps = (runOp (Ro.skipLastM n) mode sub raw).steps :=
  ⟨((skipLast_sim n hn).run mode sub raw).drops, ((skipLast_sim n hn).run mode sub raw).steps⟩

example : (runOp (RoGen.Ops.skipLastM 2) .sync {} [.next {} (1 : Int), .next {} 2, .next {} 3, .complete {}]).out
    = [.next {} 1, .complete {}] := by decide
example : (runOp (RoGen.Ops.takeLastM 2) .sync {} [.next {} (1 : Int), .next {} 2, .next {} 3, .complete {}]).out
    = [.next {} 2, .next {} 3, .complete {}] := by decide

-- non-vacuity: the regenerated machines compute
example : (runOp (RoGen.Ops.takeM 2) .sync {} [.next {} (1 : Int), .next {} 2, .next {} 3, .complete {}]).out
    = [.next {} 1, .next {} 2, .complete {}] := by decide
example : (runOp RoGen.Ops.maxM .sync {} [.complete {}]).out = [.next Ctx.nil 0, .complete {}] := by decide
example : (runOp (RoGen.Ops.skipM 1) .hot {} [.next {} (1 : Int), .next {} 2, .error {} (.user 1), .next {} 3]).out
    = [.next {} 2, .error {} (.user 1)] := by decide

/-! ### the regenerated bookkeeping: which operators are translated, which fell out of the
    fragment, which guards the constructors have. An operator silently leaving the fragment after a
    code change (or a changed guard) breaks one of these. -/

theorem translated_names : RoGen.Ops.translated =
    ["StartWith", "EndWith", "Pairwise", "AllIWithContext", "ContainsIWithContext", "FindIWithContext",
     "DefaultIfEmptyWithContext", "ContextWithValue", "ContextWithTimeout", "ContextWithDeadline",
     "ContextReset", "ContextMapI", "OnErrorReturn", "ThrowIfEmpty", "FilterIWithContext",
     "Distinct", "DistinctByWithContext", "IgnoreElements", "Skip", "SkipWhileIWithContext",
     "SkipLast", "Take", "TakeWhileIWithContext", "TakeLast", "Head", "Tail", "FirstIWithContext",
     "LastIWithContext", "ElementAt", "ElementAtOrDefault", "Average", "Count", "Sum", "Round",
     "Min", "Max", "Clamp", "Abs", "Floor", "Ceil", "Trunc", "ReduceIWithContext", "ToSlice",
     "ToMapIWithContext", "MapIWithContext", "MapTo", "MapErrIWithContext", "Flatten", "Cast",
     "ScanIWithContext", "BufferWithCount", "TapWithContext", "TapOnSubscribeWithContext",
     "TapOnFinalize", "DelayEach", "Materialize", "Serialize"] := by decide

theorem skipped_names : RoGen.Ops.skipped.map (·.1) =
    ["MergeAll", "MergeMapIWithContext", "CombineLatestWith1", "CombineLatestWith2",
     "CombineLatestWith3", "CombineLatestWith4", "CombineLatestAll", "ConcatAll", "RaceWith",
     "ZipWith1", "ZipWith2", "ZipWith3", "ZipWith4", "ZipWith5", "ZipAll", "SequenceEqual",
     "ShareWithConfig", "ThrowOnContextCancel", "Catch", "OnErrorResumeNextWith", "RetryWithConfig",
     "DoWhileIWithContext", "WhileIWithContext", "SkipUntil", "TakeUntil",
     "ceilWithInfiniteNegativePrecision", "floorWithInfiniteNegativePrecision", "precisionRound",
     "roundWithLargePositivePrecision", "roundWithLargeNegativePrecision", "ToChannel",
     "FlatMapIWithContext", "GroupByIWithContext", "BufferWhen", "BufferWithTimeOrCount",
     "WindowWhen", "SampleWhen", "ThrottleWhen", "ThrottleTime", "TimeInterval", "Timestamp",
     "Delay", "RepeatWith", "Timeout", "Dematerialize", "detachOn"] := by decide

theorem guards_as_expected : RoGen.Ops.guards =
    [("Skip", [("panic", "count < 0")]),
      ("SkipLast", [("panic", "count < 1")]),
      ("Take", [("panic", "count < 0"), ("empty", "count == 0")]),
      ("TakeLast", [("panic", "count < 0"), ("empty", "count == 0")]),
      ("ElementAt", [("panic", "nth < 0")]),
      ("ElementAtOrDefault", [("panic", "nth < 0")]),
      ("Clamp", [("panic", "lower > upper")]),
      ("BufferWithCount", [("panic", "size < 1")])] := by decide

end Ro.C04gen

#print axioms Ro.C04gen.filter_gen
#print axioms Ro.C04gen.distinct_gen
#print axioms Ro.C04gen.distinctBy_gen
#print axioms Ro.C04gen.ignoreElements_gen
#print axioms Ro.C04gen.skip_pre_iff
#print axioms Ro.C04gen.skip_gen
#print axioms Ro.C04gen.skipWhile_gen
#print axioms Ro.C04gen.take_pre_iff
#print axioms Ro.C04gen.take_gen
#print axioms Ro.C04gen.takeWhile_gen
#print axioms Ro.C04gen.head_gen
#print axioms Ro.C04gen.tail_gen
#print axioms Ro.C04gen.first_gen
#print axioms Ro.C04gen.last_gen
#print axioms Ro.C04gen.elementAt_pre_iff
#print axioms Ro.C04gen.elementAt_gen
#print axioms Ro.C04gen.elementAtOrDefault_pre_iff
#print axioms Ro.C04gen.elementAtOrDefault_gen
#print axioms Ro.C04gen.map_gen
#print axioms Ro.C04gen.mapTo_gen
#print axioms Ro.C04gen.mapErr_gen
#print axioms Ro.C04gen.flatten_gen
#print axioms Ro.C04gen.scan_gen
#print axioms Ro.C04gen.bufferWithCount_pre_iff
#print axioms Ro.C04gen.bufferWithCount_gen
#print axioms Ro.C04gen.startWith_gen
#print axioms Ro.C04gen.endWith_gen
#print axioms Ro.C04gen.tap_gen
#print axioms Ro.C04gen.tapOnSubscribe_gen
#print axioms Ro.C04gen.tapOnFinalize_gen
#print axioms Ro.C04gen.materialize_gen
#print axioms Ro.C04gen.toSlice_gen
#print axioms Ro.C04gen.onErrorReturn_gen
#print axioms Ro.C04gen.contextMapI_as_map
#print axioms Ro.C04gen.all_gen
#print axioms Ro.C04gen.contains_gen
#print axioms Ro.C04gen.find_gen
#print axioms Ro.C04gen.defaultIfEmpty_gen
#print axioms Ro.C04gen.count_gen
#print axioms Ro.C04gen.sum_gen
#print axioms Ro.C04gen.min_gen
#print axioms Ro.C04gen.max_gen
#print axioms Ro.C04gen.clamp_pre_iff
#print axioms Ro.C04gen.clamp_gen
#print axioms Ro.C04gen.reduce_gen
#print axioms Ro.C04gen.contextMapI_gen
#print axioms Ro.C04gen.contextReset_gen
#print axioms Ro.C04gen.contextReset_gen_nonnil
#print axioms Ro.C04gen.contextWithValue_gen
#print axioms Ro.C04gen.contextWithValue_up_gen
#print axioms Ro.C04gen.cast_gen
#print axioms Ro.C04gen.toMap_gen
#print axioms Ro.C04gen.serialize_gen
#print axioms Ro.C04gen.delayEach_gen
#print axioms Ro.C04gen.contextWithTimeout_sim
#print axioms Ro.C04gen.contextWithDeadline_sim
#print axioms Ro.C04gen.round_sim
#print axioms Ro.C04gen.abs_sim
#print axioms Ro.C04gen.floor_sim
#print axioms Ro.C04gen.ceil_sim
#print axioms Ro.C04gen.trunc_sim
#print axioms Ro.C04gen.tap_sim
#print axioms Ro.C04gen.pairwise_sim
#print axioms Ro.C04gen.throwIfEmpty_sim
#print axioms Ro.C04gen.average_sim
#print axioms Ro.C04gen.takeLast_pre_iff
#print axioms Ro.C04gen.skipLast_pre_iff
#print axioms Ro.C04gen.takeLast_sim
#print axioms Ro.C04gen.skipLast_sim
#print axioms Ro.C04gen.skipLast_spec_gen
#print axioms Ro.C04gen.takeLast_spec_gen
#print axioms Ro.C04gen.pairwise_spec_gen
#print axioms Ro.C04gen.throwIfEmpty_spec_gen
#print axioms Ro.C04gen.average_spec_gen
#print axioms Ro.C04gen.cast_spec_gen
#print axioms Ro.C04gen.skipLast_run_gen
#print axioms Ro.C04gen.take_spec_gen
#print axioms Ro.C04gen.map_spec_gen
#print axioms Ro.C04gen.translated_names
#print axioms Ro.C04gen.skipped_names
#print axioms Ro.C04gen.guards_as_expected

/-
  C05 (second half) — multi-source operators honour every arrival order of their inputs:
  Zip*/ZipAll, CombineLatest*/CombineLatestAll, ConcatAll/Concat/ConcatWith/FlatMap*, BufferWhen,
  WindowWhen, GroupBy*.

  Model: RoModel/MultiB/*.lean — `run m scripts order`: hot sources with the given scripts, `order`
  says which source notifies next, every notification is processed to quiescence; per-source
  upstream gates, subscribe / unsubscribe control, downstream gate. Specification:
  RoModel/Spec/MultiB.lean — functions of the *arrivals* (`arrivals scripts order`).
  Every theorem below is for EVERY tuple of source scripts and EVERY interleaving `order : List Nat`
  (no bound on lengths, on the number of sources where the operator has an arity, or on values).

  Proved in full:   combineLatest, combineLatestAll, concat (delivered trace), bufferWhen, windowWhen.
  Proved `_partial` with the excluded class witnessed (known findings, replayed on the real code):
   * zip            — `Known.zipCompleteUnsub`: the first source to finish completes while values of
                      its own are still queued; the complete callback then cancels every source.
   * zipAll         — `Known.zipAllOuterCompletes`: the destination is completed when the outer
                      source completes (`zipAll_out` says exactly what is delivered).
   * concat (subs)  — `Known.concatInnerError`: after an inner error the remaining sources are still
                      subscribed (and unsubscribed at once).
   * groupBy        — `Known.groupByErrorCompletesGroups` (a hot source's error completes the groups
                      instead of failing them), `Known.groupByLate` (a recorder subscribing after the
                      source ended loses the queued values).
  Corollaries: grammar of every delivered trace (`run_grammar`, any machine); a delivered terminal
  releases every source (`run_released`, `concat_released`, `zipAll_released`); per-source order /
  no loss / no duplication (`zip_component_prefix`, `concat_values_sublist`, `bufferWhen_partition`,
  `bufferWhen_prefix`; for groupBy and windowWhen it is the shape of the specification itself).

  True concurrency (last sentence of C05): micro-step models (RoModel/MultiB/Micro.lean: threads =
  sources, one transition per critical section / atomic operation / destination call) of Zip,
  CombineLatest, BufferWhen, WindowWhen; the clause FAILS for all four — witness theorems
  `Micro.*_concurrent_*_witness` below (a schedule whose delivered trace is the specification's value
  for no compatible arrival order; for Zip also a self-deadlock and a reordering). The stress runs of
  harness kind `multibc` find the same outcomes on the real code and check that every outcome the
  real code shows is reachable in the micro-step model. ConcatAll and GroupBy have a single feeder
  at any time (the outer source is blocked in `Wait`; GroupBy has one source), so the clause is
  vacuous for them.
-/
import RoProofs.MultiB.Core
import RoProofs.MultiB.Arrivals
import RoProofs.MultiB.BufferWhen
import RoProofs.MultiB.WindowWhen
import RoProofs.MultiB.CombineLatest
import RoProofs.MultiB.Zip
import RoProofs.MultiB.All
import RoProofs.MultiB.Concat
import RoProofs.MultiB.GroupBy
import RoProofs.MultiB.Corollaries
import RoProofs.MultiB.ZipCorollaries
import RoProofs.MultiB.MicroWitness
namespace Ro.C05b
open Ro Ro.MultiB

/-! ### the statements, restated so that they cannot drift silently -/

theorem zip {α : Type} (n : Nat) (hn : 0 < n) (scripts : List (List (Ev α))) (hlen : scripts.length ≤ n) (order : List Nat)
    (hk : Known.zipCompleteUnsub n [] 0 (arrivals (scriptsFn scripts) order) = false) :
    (run (zipM n) scripts order).out = Spec.zip n (arrivals (scriptsFn scripts) order) :=
  zip_spec_partial n hn scripts hlen order hk

theorem combineLatest {α : Type} (n : Nat) (hn : 0 < n) (scripts : List (List (Ev α))) (hlen : scripts.length ≤ n) (order : List Nat) :
    (run (combineLatestM n) scripts order).out = Spec.combineLatest n (arrivals (scriptsFn scripts) order) :=
  combineLatest_spec n hn scripts hlen order

theorem concat {α : Type} (n : Nat) (outer : OuterEnd) (scripts : List (List (Ev α))) (hlen : scripts.length ≤ n) (order : List Nat) :
    (run (concatM n outer) scripts order).out = Spec.concat n outer (arrivals (scriptsFn scripts) order) :=
  concat_spec n outer scripts hlen order

theorem bufferWhen {α : Type} (scripts : List (List (Ev α))) (hlen : scripts.length ≤ 2) (order : List Nat) :
    (run bufferWhenM scripts order).out = Spec.bufferWhen (arrivals (scriptsFn scripts) order) :=
  bufferWhen_spec scripts hlen order

theorem windowWhen {α : Type} (scripts : List (List (Ev α))) (hlen : scripts.length ≤ 2) (order : List Nat) :
    viewOut (run windowWhenM scripts order).m.wins (run windowWhenM scripts order).out
      = Spec.windowWhen (arrivals (scriptsFn scripts) order) :=
  windowWhen_spec scripts hlen order

theorem groupBy {α κ : Type} [DecidableEq κ] (key : α → Nat → κ) (delay : Nat)
    (scripts : List (List (Ev α))) (hlen : scripts.length ≤ 1) (order : List Nat)
    (h1 : Known.groupByLate delay (arrivals (scriptsFn scripts) order) = false)
    (h2 : Known.groupByErrorCompletesGroups (arrivals (scriptsFn scripts) order) = false) :
    viewOut ((run (groupByM key delay) scripts order).m.groups.map (·.2)) (run (groupByM key delay) scripts order).out
      = Spec.groupBy key (arrivals (scriptsFn scripts) order) :=
  groupBy_spec_partial key delay scripts hlen order h1 h2

/-- error (any terminal) ends the output at once and releases the others — for every all-hot machine -/
theorem released {σ α β : Type} (m : Machine σ α β) (h : AllHot m) (scripts : List (List (Ev α))) (hlen : scripts.length ≤ m.n)
    (order : List Nat) (hterm : hasTerm (run m scripts order).out = true) (j : Nat) :
    (run m scripts order).status j ≠ .live :=
  run_released m h scripts hlen order hterm j

/-! ### deviation witnesses (each replayed on the real code as a known finding) -/

/-- Zip2(A, B) with A = 1, 2, complete and B = 3, 4 arriving afterwards: nothing is delivered, B's
    values are refused; the specification delivers (1,3), (2,4) and completes. -/
theorem zip_complete_unsub_witness :
    let scripts : List (List (Ev Int)) := [[.next 1, .next 2, .complete], [.next 3, .next 4]]
    let order := [0, 0, 0, 1, 1]
    (run (zipM 2) scripts order).out = [] ∧
    Spec.zip 2 (arrivals (scriptsFn scripts) order) = [.next [1, 3], .next [2, 4], .complete] ∧
    Known.zipCompleteUnsub 2 [] 0 (arrivals (scriptsFn scripts) order) = true ∧
    (run (zipM 2) scripts order).released 1 = true := by decide

/-- Zip(A, B) over hot sources: only `Complete` is delivered. -/
theorem zipAll_outer_complete_witness :
    let scripts : List (List (Ev Int)) := [[.next 1], [.next 2]]
    (run (zipAllM 2 .complete) scripts [0, 1]).out = [.complete] ∧
    Spec.zipAll 2 .complete (arrivals (scriptsFn scripts) [0, 1]) = [.next [1, 2]] ∧
    Known.zipAllOuterCompletes 2 .complete = true := by decide

/-- documentation-level (C04): BufferWhen's doc comment promises a flush when the source errors;
    the code forwards the error at once — which is what C05 asks for ("ends the output at once"). -/
theorem bufferWhen_error_no_flush :
    (run (bufferWhenM (α := Int)) [[.next 1, .error (.user 1)], []] [0, 0]).out = [.error (.user 1)] := by decide

/-! ### non-vacuity: the hypotheses are satisfiable and the statements say something -/

example : Known.zipCompleteUnsub 2 [] 0 (arrivals (scriptsFn [[Ev.next (1:Int), .next 2, .complete], [.next 3, .next 4, .complete]]) [0, 1, 0, 1, 0, 1]) = false := by decide
example : (run (zipM 2) [[Ev.next (1:Int), .next 2, .complete], [.next 3, .next 4, .complete]] [0, 1, 0, 1, 0, 1]).out
    = [.next [1, 3], .next [2, 4], .complete] := by decide
example : (run (zipM 3) [[Ev.next (1:Int), .next 2], [.next 3], [.next 5, .error (.user 9)]] [2, 0, 1, 0, 2]).out
    = [.next [1, 3, 5], .error (.user 9)] := by decide
example : (run (combineLatestM 2) [[Ev.next (1:Int), .next 2, .complete], [.next 3, .next 4, .complete]] [0, 1, 0, 1, 0, 1]).out
    = [.next [1, 3], .next [2, 3], .next [2, 4], .complete] := by decide
example : Spec.combineLatest 2 (arrivals (scriptsFn [[Ev.next (1:Int), .next 2, .complete], [.next 3, .next 4, .complete]]) [0, 1, 0, 1, 0, 1])
    = [.next [1, 3], .next [2, 3], .next [2, 4], .complete] := by decide
example : (run (concatM 2 .complete) [[Ev.next (1:Int), .complete], [.next 3, .next 4, .complete]] [1, 0, 0, 1, 1]).out
    = [.next 1, .next 4, .complete] := by decide
example : (run bufferWhenM [[Ev.next (1:Int), .next 2, .next 3, .complete], [.next 0, .next 0]] [0, 1, 0, 0, 1, 0]).out
    = [.next [1], .next [2, 3], .next [], .complete] := by decide
example : Spec.bufferWhen (arrivals (scriptsFn [[Ev.next (1:Int), .next 2, .next 3, .complete], [.next 0, .next 0]]) [0, 1, 0, 0, 1, 0])
    = [.next [1], .next [2, 3], .next [], .complete] := by decide

end Ro.C05b

#print axioms Ro.C05b.zip
#print axioms Ro.C05b.combineLatest
#print axioms Ro.C05b.concat
#print axioms Ro.C05b.bufferWhen
#print axioms Ro.C05b.windowWhen
#print axioms Ro.C05b.groupBy
#print axioms Ro.C05b.released
#print axioms Ro.C05b.zip_complete_unsub_witness
#print axioms Ro.C05b.zipAll_outer_complete_witness
#print axioms Ro.C05b.bufferWhen_error_no_flush
#print axioms Ro.MultiB.runCore_abs
#print axioms Ro.MultiB.run_grammar
#print axioms Ro.MultiB.zip_spec_partial
#print axioms Ro.MultiB.zip_component_prefix
#print axioms Ro.MultiB.zipAll_out
#print axioms Ro.MultiB.zipAll_released
#print axioms Ro.MultiB.zipAll_spec_partial
#print axioms Ro.MultiB.combineLatest_spec
#print axioms Ro.MultiB.combineLatestAll_spec
#print axioms Ro.MultiB.concat_spec
#print axioms Ro.MultiB.concat_subs_partial
#print axioms Ro.MultiB.concat_subscribes_after_error_witness
#print axioms Ro.MultiB.concat_released
#print axioms Ro.MultiB.concat_values_sublist
#print axioms Ro.MultiB.bufferWhen_spec
#print axioms Ro.MultiB.bufferWhen_partition
#print axioms Ro.MultiB.bufferWhen_prefix
#print axioms Ro.MultiB.windowWhen_spec
#print axioms Ro.MultiB.groupBy_spec_partial
#print axioms Ro.MultiB.groupBy_late_witness
#print axioms Ro.MultiB.groupBy_error_witness
#print axioms Ro.MultiB.Micro.zip_concurrent_lost_tuple_witness
#print axioms Ro.MultiB.Micro.zip_concurrent_deadlock_witness
#print axioms Ro.MultiB.Micro.zip_concurrent_reorder_witness
#print axioms Ro.MultiB.Micro.combineLatest_concurrent_duplicate_witness
#print axioms Ro.MultiB.Micro.bufferWhen_concurrent_lost_buffer_witness
#print axioms Ro.MultiB.Micro.windowWhen_concurrent_lost_value_witness

/-
  C15 — re-subscribing operators run attempts in sequence, the right number of times.

  Model: RoModel/Resub.lean (the Go loops read line by line; tied to the code by the `resub`
  correspondence). Specification: RoModel/Spec/Resub.lean. Proofs: RoProofs/Resub*.lean.

  For every list of attempt outcomes (any length, any values), every configuration, every truth
  sequence of the loop condition, every cancellation point of the subscription context and every
  point at which the downstream goes away, a run `Conforms`:
    * the subscribe/teardown log is s₁ t₁ s₂ t₂ … sₙ tₙ (hence never two attempts alive),
    * n is the closed form the configuration dictates (`firstStop`: up to and including the first
      attempt that stops the loop, characterised by `attempts_characterisation`),
    * the values of exactly these n attempts are forwarded in order,
    * the final terminal is the defined one (Retry: the last error when the retries are spent —
      counted from the last delivered value with ResetOnSuccess, `retry_charge_reset` — or the
      cancellation error; nothing is subscribed once the cancellation is observed).

  Deviations of the pinned tree (witness theorems below, replayed on the real code on every run):
    * `Catch` subscribes the fallback from inside the error callback of the first subscription: the
      log is s₁ s₂ t₂ t₁ (s₁ s₂ t₁ t₂ when the attempts run on goroutines), two attempts alive.
      Full statement (false on the pinned tree):
        ∀ mode sub outs, Conforms (catch_ mode sub outs) outs (catchAttempts outs) (termAfter outs (catchAttempts outs))
      `catch_conforms_partial` excludes exactly `Known.catchFallback`; `catch_rest` proves the count,
      the values and the terminal for every input.
    * the `Wait` window (kernel, `subscription.go:104-150` vs `167-177`): `Wait()` returns as soon as the
      subscription's `done` flag is set, also while the finalizers are still running on another
      goroutine. In the schedule where an attempt's terminal arrives after its teardown was registered
      and before the operator reaches `Wait`, every waiting operator subscribes the next attempt while
      the previous teardown has not finished: log s₁ s₂ t₁ … (`wait_window_deviation`,
      `wait_window_witness`; driven on the real code by `mode=tdrace`). The `Conforms` theorems describe
      all other schedules (terminal before `Subscribe` returns — synchronous attempts — or after the
      operator has entered `Wait`), where the model's log is the one the code produces.
  Repaired since the first version of this file: `Concat` kept subscribing the remaining sources
  after one had failed (fix 808ed47) — `concat_conforms` is now the full statement.
  Noted, not part of C15: Retry/While/DoWhile/OnErrorResumeNextWith/Concat do not look at the
  destination, so the attempt counts above do not depend on `cut` (downstream gone: C14);
  RepeatWith registers nothing for teardown (C14).
-/
import RoProofs.Resub
import RoProofs.ResubRetry
import RoProofs.ResubLoops
namespace Ro.C15
open Ro Ro.Resub Ro.Resub.Spec

/-- what C15 asks of one run over the attempt outcomes `outs`: `n` attempts strictly one after
    another, their values forwarded in order, then the terminal `t` -/
structure Conforms (r : Result) (outs : List Outcome) (n : Nat) (t : Term) : Prop where
  log : r.log = seqLog 1 n
  attempts : r.attempts = n
  vals : outVals r.raw = valuesOf (outs.take n)
  term : outTerm r.raw = some t

/-- never two attempts alive -/
theorem Conforms.neverTwoAlive {r : Result} {outs : List Outcome} {n : Nat} {t : Term} (h : Conforms r outs n t) :
    maxLive r.log ≤ 1 := by rw [h.log]; exact maxLive_seqLog_le 1 n

/-- exactly the subscriptions 1 … n happen -/
theorem Conforms.subscriptions {r : Result} {outs : List Outcome} {n : Nat} {t : Term} (h : Conforms r outs n t) :
    subsOf r.log = List.range' 1 n := by rw [h.log]; exact subsOf_seqLog 1 n

/-- what the observer receives, for every point `cut` at which it goes away: the values of the `n`
    attempts in order (the first k of them), then the terminal (unless it left first); always a
    grammatical trace -/
theorem Conforms.delivered {r : Result} {outs : List Outcome} {n : Nat} {t : Term} (h : Conforms r outs n t) (cut : Option Nat) :
    outVals (deliver cut r.raw) = cutVals cut (valuesOf (outs.take n)) ∧
    outTerm (deliver cut r.raw) = cutTerm cut (valuesOf (outs.take n)) (some t) ∧
    Grammar (deliver cut r.raw) := by
  refine ⟨?_, ?_, deliver_grammar cut r.raw⟩
  · rw [deliver_vals, h.vals]
  · rw [deliver_term, h.vals, h.term]

/-- `firstStop stops bound` is *the* number n ≤ bound such that no attempt before the n-th stopped
    the loop and, if n < bound, the n-th did (at least one attempt if the bound allows one) -/
theorem attempts_characterisation (stops : Nat → Bool) (bound n : Nat) :
    n = firstStop stops bound ↔
      (n ≤ bound ∧ (0 < bound → 0 < n) ∧ (∀ j, j + 1 < n → stops j = false) ∧ (n < bound → stops (n - 1) = true)) := by
  constructor
  · intro h; subst h
    exact ⟨firstStop_le _ _, firstStop_pos _ _, firstStop_before _ _, firstStop_stops _ _⟩
  · intro ⟨h1, h2, h3, h4⟩
    exact firstStop_unique stops bound n h1 h2 h3 h4

/-! ### Retry / RetryWithConfig -/

theorem retry_attempts (cfg : RetryCfg) (sub : Ctx) (cancel : Option Nat) (outs : List Outcome) :
    (retry cfg sub cancel outs).attempts = retryAttemptsC cfg cancel outs := by
  unfold retry retryAttemptsC retryAttempts
  cases cancel with
  | none => exact retryLoop_attempts cfg sub outs 1 0
  | some k => rw [retryLoop_attempts_cancel, retryLoop_attempts]; simp

theorem retry_conforms (cfg : RetryCfg) (sub : Ctx) (cancel : Option Nat) (outs : List Outcome) :
    Conforms (retry cfg sub cancel outs) outs (retryAttemptsC cfg cancel outs) (retryTerm cfg cancel outs) := by
  have ha := retry_attempts cfg sub cancel outs
  refine ⟨?_, ha, ?_, ?_⟩
  · rw [← ha]; exact retryLoop_log cfg sub cancel outs 1 0
  · rw [← ha]; exact retryLoop_vals cfg sub cancel outs 1 0
  · unfold retry retryTerm cancelWins retryAttempts
    cases cancel with
    | none => simp [retryLoop_term, retryLoop_attempts]
    | some k =>
      rw [retryLoop_term_cancel, retryLoop_attempts]
      simp

/-- nothing is subscribed after the cancellation is observed: cancelled during attempt `k`
    (`k = 0`: before subscribing), no attempt beyond the k-th is ever subscribed -/
theorem retry_cancel_stops (cfg : RetryCfg) (sub : Ctx) (k : Nat) (outs : List Outcome) :
    (retry cfg sub (some k) outs).attempts ≤ k ∧ ∀ j ∈ subsOf (retry cfg sub (some k) outs).log, j ≤ k := by
  have h := retry_conforms cfg sub (some k) outs
  have hle : retryAttemptsC cfg (some k) outs ≤ k := by simp [retryAttemptsC]; omega
  refine ⟨by rw [h.attempts]; exact hle, ?_⟩
  intro j hj
  rw [h.subscriptions, List.mem_range'_1] at hj
  omega

/-- a cancellation that comes after the loop has ended by itself changes nothing -/
theorem retry_cancel_late (cfg : RetryCfg) (k : Nat) (outs : List Outcome) (h : retryAttempts cfg outs ≤ k) :
    retryAttemptsC cfg (some k) outs = retryAttempts cfg outs ∧ retryTerm cfg (some k) outs = retryTerm cfg none outs := by
  have : ¬ k < retryAttempts cfg outs := by omega
  simp [retryAttemptsC, retryTerm, cancelWins, this]; omega

/-- the charge against MaxRetries: without ResetOnSuccess every failed attempt counts … -/
theorem retry_charge_noReset (pre : List Outcome) : chargedFrom false 0 pre = pre.length := by
  simpa using chargedFrom_noReset 0 pre

/-- … with ResetOnSuccess it is counted from the last attempt that delivered a value (that attempt
    included), or from the beginning when none delivered anything -/
theorem retry_charge_reset (pre : List Outcome) : chargedFrom true 0 pre = min pre.length (trailingSilent pre + 1) :=
  chargedFrom_reset pre

/-- Retry() (unlimited): the loop ends exactly at the first attempt that completes -/
theorem retry_unlimited (reset delay : Bool) (outs : List Outcome) :
    retryAttempts ⟨0, delay, reset⟩ outs = firstStop (fun j => !failsAt outs j) (outs.length + 1) := by
  unfold retryAttempts
  apply firstStop_congr
  intro j _
  simp [retryStopsFrom]

/-! ### While / DoWhile -/

theorem while_conforms (ct : Nat) (sub : Ctx) (conds : List Bool) (outs : List Outcome) :
    Conforms (while_ ct sub conds outs) outs (whileAttempts conds outs) (termAfter outs (whileAttempts conds outs)) := by
  have ha : (while_ ct sub conds outs).attempts = whileAttempts conds outs := whileLoop_attempts ct conds outs sub 0
  refine ⟨?_, ha, ?_, ?_⟩ <;> rw [← ha]
  · exact whileLoop_log ct conds outs sub 0
  · exact whileLoop_vals ct conds outs sub 0
  · exact whileLoop_term ct conds outs sub 0

theorem doWhile_conforms (ct : Nat) (sub : Ctx) (conds : List Bool) (outs : List Outcome) :
    Conforms (doWhile ct sub conds outs) outs (doWhileAttempts conds outs) (termAfter outs (doWhileAttempts conds outs)) := by
  have ha : (doWhile ct sub conds outs).attempts = doWhileAttempts conds outs := doWhileLoop_attempts ct conds outs sub 0
  refine ⟨?_, ha, ?_, ?_⟩ <;> rw [← ha]
  · exact doWhileLoop_log ct conds outs sub 0
  · exact doWhileLoop_vals ct conds outs sub 0
  · exact doWhileLoop_term ct conds outs sub 0

/-! ### RepeatWith -/

theorem repeatWith_conforms (count : Nat) (sub : Ctx) (cut : Option Nat) (outs : List Outcome) :
    Conforms (repeatWith count sub cut outs) outs (repeatAttempts count cut outs) (termAfter outs (repeatAttempts count cut outs)) := by
  unfold repeatWith repeatAttempts
  by_cases h0 : count = 0
  · subst h0
    exact ⟨by simp [firstStop], by simp [firstStop], by simp [firstStop], by simp [firstStop, termAfter]⟩
  · rw [if_neg h0]
    have ha := repeatLoop_attempts sub count outs 0 cut Ctx.nil
    refine ⟨?_, ha, ?_, ?_⟩ <;> rw [← ha]
    · exact repeatLoop_log sub count outs 0 cut Ctx.nil
    · exact repeatLoop_vals sub count outs 0 cut Ctx.nil
    · exact repeatLoop_term sub count outs 0 cut Ctx.nil

/-- with the downstream present to the end, RepeatWith runs `count` attempts unless one fails -/
theorem repeatWith_attempts_nocut (count : Nat) (outs : List Outcome) :
    repeatAttempts count none outs = firstStop (failsAt outs) count := by
  unfold repeatAttempts
  apply firstStop_congr
  intro j _
  simp [repeatStops]

/-! ### OnErrorResumeNextWith -/

theorem onErrorResumeNext_conforms (k : Nat) (sub : Ctx) (outs : List Outcome) :
    Conforms (onErrorResumeNext k sub outs) outs (resumeAttempts k) (termAfter outs (resumeAttempts k)) := by
  unfold onErrorResumeNext resumeAttempts
  by_cases h0 : k = 0
  · subst h0
    refine ⟨by simp, by simp, ?_, ?_⟩
    · simp [outVals_nexts_append, valuesOf_take_one, Outcome.terminal]
      cases (outcomeAt outs 0).fin <;> simp
    · simp only [if_true, after_raw, stop_raw, Outcome.terminal, termAfter]
      cases (outcomeAt outs 0).fin <;> simp [outTerm_nexts_append]
  · rw [if_neg h0]
    have ha := resumeLoop_attempts sub (k + 1) outs 0 Ctx.nil none
    refine ⟨?_, ha, ?_, ?_⟩
    · rw [resumeLoop_log, ha]
    · exact resumeLoop_vals sub (k + 1) outs 0 Ctx.nil none
    · rw [resumeLoop_term]; simp

/-! ### Concat -/

/-- every number of sources, every outcome list: one source after the other until one fails
    (full statement since fix 808ed47; before it the remaining sources were still subscribed) -/
theorem concat_conforms (n : Nat) (sub : Ctx) (outs : List Outcome) :
    Conforms (concat n sub outs) outs (concatAttempts n outs) (termAfter outs (concatAttempts n outs)) := by
  have ha : (concat n sub outs).attempts = concatAttempts n outs := concatLoop_attempts sub n outs 0
  refine ⟨?_, ha, ?_, ?_⟩ <;> rw [← ha]
  · exact concatLoop_log sub n outs 0
  · exact concatLoop_vals sub n outs 0
  · exact concatLoop_term sub n outs 0

/-! ### Catch -/

/-- for every input: the count, the values and the terminal -/
theorem catch_rest (mode : Mode) (sub : Ctx) (outs : List Outcome) :
    (catch_ mode sub outs).attempts = catchAttempts outs ∧
    outVals (catch_ mode sub outs).raw = valuesOf (outs.take (catchAttempts outs)) ∧
    outTerm (catch_ mode sub outs).raw = some (termAfter outs (catchAttempts outs)) := by
  unfold catch_ catchAttempts
  simp only []
  cases h : (outcomeAt outs 0).fin with
  | complete =>
    simp [failsAt_zero_of_complete h, outVals_nexts_append, outTerm_nexts_append, valuesOf_take_one, termAfter, h]
  | error e =>
    have h2 : valuesOf (outs.take 2) = (outcomeAt outs 0).vals.map (·.2) ++ (outcomeAt outs 1).vals.map (·.2) := by
      rw [valuesOf_take_succ, valuesOf_take_one, outcomeAt_tail]
    simp only [failsAt_zero_of_error h, if_true, outVals_nexts_append, outTerm_nexts_append, h2, termAfter, Outcome.terminal]
    cases (outcomeAt outs 1).fin <;> simp

theorem catch_conforms_partial (mode : Mode) (sub : Ctx) (outs : List Outcome) (h : Known.catchFallback outs = false) :
    Conforms (catch_ mode sub outs) outs (catchAttempts outs) (termAfter outs (catchAttempts outs)) := by
  obtain ⟨h1, h2, h3⟩ := catch_rest mode sub outs
  refine ⟨?_, h1, h2, h3⟩
  unfold Known.catchFallback at h
  unfold catch_ catchAttempts
  simp only [h]
  cases hf : (outcomeAt outs 0).fin with
  | complete => simp
  | error e => rw [failsAt_zero_of_error hf] at h; simp at h

/-- the deviation, for every input of the excluded class and both modes: the fallback is subscribed
    while the first attempt is still alive -/
theorem catch_deviation (mode : Mode) (sub : Ctx) (outs : List Outcome) (h : Known.catchFallback outs = true) :
    maxLive (catch_ mode sub outs).log = 2 ∧ (catch_ mode sub outs).log ≠ seqLog 1 2 := by
  unfold Known.catchFallback failsAt at h
  obtain ⟨e, he⟩ := (fails_iff _).mp h
  unfold catch_
  simp only [he]
  cases mode <;> exact ⟨by decide, by decide⟩

/-- witness: s₁ s₂ t₂ t₁ -/
theorem catch_witness :
    (catch_ .sync {} [⟨[(1, 11)], 2, .error 1⟩, ⟨[(1, 21)], 2, .complete⟩]).log = [.s 1, .s 2, .t 2, .t 1] := by decide

/-! ### the `Wait` window -/

/-- for every number of attempts ≥ 2: two attempts alive, the log is not sequential -/
theorem wait_window_deviation (n : Nat) :
    maxLive (overlapLog (n + 2)) = 2 ∧ overlapLog (n + 2) ≠ seqLog 1 (n + 2) :=
  ⟨maxLive_overlapLog n, overlapLog_ne_seqLog n⟩

/-- witness: a Retry whose first attempt fails — s₁ s₂ t₁ t₂ -/
theorem wait_window_witness :
    overlapLog (retry ⟨0, false, false⟩ {} none [⟨[(1, 11)], 2, .error 1⟩, ⟨[(1, 21)], 2, .complete⟩]).attempts
      = [.s 1, .s 2, .t 1, .t 2] := by decide

/-! ### non-vacuity: concrete runs -/

def fail0 (e : Nat) : Outcome := ⟨[], 1, .error e⟩
def fail1 (e : Nat) (v : Int) : Outcome := ⟨[(1, v)], 2, .error e⟩
def ok1 (v : Int) : Outcome := ⟨[(1, v)], 2, .complete⟩

-- MaxRetries = 2: three attempts, then the last error
example : (retry ⟨2, false, false⟩ {} none [fail1 1 11, fail0 2, fail0 3, fail0 4]).attempts = 3 := by decide
example : retryTerm ⟨2, false, false⟩ none [fail1 1 11, fail0 2, fail0 3, fail0 4] = .error (.user 3) := by decide
-- ResetOnSuccess: the value of attempt 2 restarts the count, so one more attempt
example : (retry ⟨2, false, true⟩ {} none [fail0 1, fail1 2 21, fail0 3, fail0 4, fail0 5]).attempts = 4 := by decide
example : (retry ⟨2, false, false⟩ {} none [fail0 1, fail1 2 21, fail0 3, fail0 4, fail0 5]).attempts = 3 := by decide
-- cancelled during attempt 2
example : (retry ⟨0, false, false⟩ {} (some 2) [fail0 1, fail1 2 21, fail0 3]).log = [.s 1, .t 1, .s 2, .t 2] := by decide
example : retryTerm ⟨0, false, false⟩ (some 2) [fail0 1, fail1 2 21, fail0 3] = .error ctxCanceled := by decide
example : deliver none (retry ⟨0, false, false⟩ {} none [fail1 1 11, ok1 21]).raw
    = [.next (Ctx.tag {} 1) 11, .next (Ctx.tag {} 1) 21, .complete (Ctx.tag {} 2)] := by decide
example : (while_ 0 {} [true, true, false] [ok1 11, ok1 21, ok1 31]).attempts = 2 := by decide
example : (doWhile 0 {} [true, false] [ok1 11, ok1 21, ok1 31]).attempts = 2 := by decide
example : (repeatWith 3 {} none [ok1 11, fail0 2, ok1 31]).attempts = 2 := by decide
example : (repeatWith 3 {} (some 1) [ok1 11, ok1 21, ok1 31]).attempts = 1 := by decide
example : (onErrorResumeNext 2 {} [fail1 1 11, ok1 21, fail0 3]).attempts = 3 := by decide
example : (concat 3 {} [ok1 11, fail0 2, ok1 31]).attempts = 2 := by decide
example : (concat 3 {} [ok1 11, fail0 2, ok1 31]).log = [.s 1, .t 1, .s 2, .t 2] := by decide
example : Known.catchFallback [ok1 11] = false ∧ Known.catchFallback [fail0 1, ok1 21] = true := by decide

end Ro.C15

#print axioms Ro.C15.Conforms.neverTwoAlive
#print axioms Ro.C15.Conforms.subscriptions
#print axioms Ro.C15.Conforms.delivered
#print axioms Ro.C15.attempts_characterisation
#print axioms Ro.C15.retry_attempts
#print axioms Ro.C15.retry_conforms
#print axioms Ro.C15.retry_cancel_stops
#print axioms Ro.C15.retry_cancel_late
#print axioms Ro.C15.retry_charge_noReset
#print axioms Ro.C15.retry_charge_reset
#print axioms Ro.C15.retry_unlimited
#print axioms Ro.C15.while_conforms
#print axioms Ro.C15.doWhile_conforms
#print axioms Ro.C15.repeatWith_conforms
#print axioms Ro.C15.repeatWith_attempts_nocut
#print axioms Ro.C15.onErrorResumeNext_conforms
#print axioms Ro.C15.concat_conforms
#print axioms Ro.C15.catch_rest
#print axioms Ro.C15.catch_conforms_partial
#print axioms Ro.C15.catch_deviation
#print axioms Ro.C15.catch_witness
#print axioms Ro.C15.wait_window_deviation
#print axioms Ro.C15.wait_window_witness

/-
  C01 (b) — the observable contract under concurrency: in the concurrent kernel (`Kernel.Conc`,
  running the programs of subscriberImpl / subscriptionImpl, tied to the Go sources by
  RoProps/KernelTie.lean), for every number of threads, every scripts and every schedule, the
  callback-begin subsequence of the log is: values, then at most one terminal, then nothing —
  in safe and eventually-safe mode, and in any mode under the single-producer hypothesis.

  Invariant: a terminal callback has begun ⇒ status ≠ 0; a thread that has passed its status test
  (loaded 0 / won the CAS) and not yet called the destination holds `mu`, so nobody else begins a
  callback meanwhile and no terminal has begun before it.

  Assumption (as in C01(a)): the destination does not panic and does not call back into the
  subscriber from inside the callback.
-/
import RoProofs.Kernel.Producer
import RoProps.KernelTie
namespace Ro.C01b
open Ro.Kernel

/-- C01(b), safe / eventually-safe mode -/
theorem kernel_grammar_concurrent (mode : Mode) (hm : mode ≠ .unsafeMode) (destNil : Bool)
    (panicky : List FinId) (scripts : List (List ApiCall)) (sched : List Tid) :
    Grammar (begins (run Expected.progs (init mode destNil panicky scripts) sched).sh.log) :=
  (sinv_reachable mode hm destNil panicky scripts sched).gram.gram

/-- C01(b), any mode with one producer thread -/
theorem kernel_grammar_single_producer (mode : Mode) (destNil : Bool) (panicky : List FinId)
    (scripts : List (List ApiCall)) (hsp : SingleProducer scripts) (sched : List Tid) :
    Grammar (begins (run Expected.progs (init mode destNil panicky scripts) sched).sh.log) :=
  (uinv_reachable mode destNil panicky scripts hsp sched).gram.gram

/-- the executable form the driver and the harness evaluate -/
theorem kernel_grammarLog (mode : Mode) (hm : mode ≠ .unsafeMode) (destNil : Bool)
    (panicky : List FinId) (scripts : List (List ApiCall)) (sched : List Tid) :
    grammarLog (run Expected.progs (init mode destNil panicky scripts) sched).sh.log = true :=
  (grammarB_iff _).mpr (kernel_grammar_concurrent mode hm destNil panicky scripts sched)

/-- once a terminal callback has begun, `status` is non-zero (so every later Next is refused) -/
theorem kernel_terminal_closes (mode : Mode) (hm : mode ≠ .unsafeMode) (destNil : Bool)
    (panicky : List FinId) (scripts : List (List ApiCall)) (sched : List Tid)
    (h : termBegun (run Expected.progs (init mode destNil panicky scripts) sched).sh.log = true) :
    (run Expected.progs (init mode destNil panicky scripts) sched).sh.status ≠ 0 :=
  (sinv_reachable mode hm destNil panicky scripts sched).gram.term h

/-! ### non-vacuity: three producers racing values against two terminals -/

example : begins (run Expected.progs (init .safe false [] [[.next 1, .complete], [.next 2, .error 7], [.next 3]])
    [0, 1, 2, 0, 1, 2, 0, 1, 2, 0, 1, 2, 0, 1, 2, 0, 1, 2, 0, 1, 2, 0, 1, 2, 0, 1, 2, 0, 1, 2, 0, 1, 2, 0, 1, 2,
     0, 1, 2, 0, 1, 2, 0, 1, 2, 0, 1, 2, 0, 1, 2, 0, 1, 2, 0, 1, 2, 0, 1, 2, 0, 1, 2, 0, 1, 2, 0, 1, 2, 0, 1, 2]).sh.log
    = [.next {} 1, .next {} 2, .next {} 3, .complete {}] := by decide +kernel

/-- witness that the lock matters: with the no-op mutex and two producers a value begins after the
    terminal (documented contract of the unsafe mode, not a deviation) -/
theorem unsafe_two_producers_grammar_witness :
    ¬ Grammar (begins (run Expected.progs (init .unsafeMode false [] [[.next 1], [.complete]])
      [0, 0, 0, 0, 0, 1, 1, 1, 1, 1, 0]).sh.log) := by decide

end Ro.C01b

#print axioms Ro.KernelTie.progs_are_the_source
#print axioms Ro.KernelTie.subscriber_ctor_is_the_source
#print axioms Ro.C01b.kernel_grammar_concurrent
#print axioms Ro.C01b.kernel_grammar_single_producer
#print axioms Ro.C01b.kernel_grammarLog
#print axioms Ro.C01b.kernel_terminal_closes
#print axioms Ro.C01b.unsafe_two_producers_grammar_witness

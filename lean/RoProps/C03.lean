/-
  C03 (kernel part) — teardown exactly once.

  In the concurrent kernel (`Kernel.Conc` running the programs of subscriberImpl / subscriptionImpl,
  tied to the Go sources by RoProps/KernelTie.lean), with Complete, Error, Unsubscribe, Add, Wait
  issued from any threads in any schedule:

  * every finalizer runs at most once in every reachable state (token argument: a finalizer id is
    in exactly one of: a script, the current Add call, `finalizers`, one thread's taken list, `ran`;
    the swap of `finalizers` happens under `subMu`, so taken lists are disjoint);
  * in every state where no thread can move and `done` is set, every stored finalizer has run —
    with the first point: exactly once;
  * a teardown is stored only while the subscription is not done; once `done` is set every later
    Add runs its teardown itself before returning (inside the Add call, holding `subMu`);
  * panicking finalizers do not stop the others (the two points above make no assumption on which
    finalizers panic) and the joined panic is raised only after the loop.

  Caveat proved as stated (DESIGN.md C03): a teardown added after disposal runs while `subMu` is
  held (`kernel_runNow_holds_subMu`), so a teardown that re-enters Add / Unsubscribe on the same
  subscription would self-deadlock; teardowns of the model do not call back.
-/
import RoProofs.Kernel.Events
import RoProofs.Kernel.Main2
import RoProps.KernelTie
namespace Ro.C03
open Ro.Kernel

/-- C03: no finalizer runs twice — every mode, threads, scripts (each finalizer id used once), schedule -/
theorem kernel_finalizer_at_most_once (mode : Mode) (destNil : Bool) (panicky : List FinId)
    (scripts : List (List ApiCall)) (hd : DistinctIds scripts) (sched : List Tid) (f : FinId) :
    (run Expected.progs (init mode destNil panicky scripts) sched).sh.ran.count f ≤ 1 :=
  ran_count_le_one (kinv_reachable mode destNil panicky scripts sched) f (hd f)

/-- the same on the log: the `finRun` events are exactly `ran`, in order -/
theorem kernel_finRuns_log (mode : Mode) (destNil : Bool) (panicky : List FinId)
    (scripts : List (List ApiCall)) (sched : List Tid) :
    finRuns (run Expected.progs (init mode destNil panicky scripts) sched).sh.log =
      (run Expected.progs (init mode destNil panicky scripts) sched).sh.ran :=
  (kinv_reachable mode destNil panicky scripts sched).tear.finRuns

/-- C03: in a terminal state (no thread enabled) with `done`, every stored finalizer has run exactly once -/
theorem kernel_finalizers_exactly_once_at_end (mode : Mode) (destNil : Bool) (panicky : List FinId)
    (scripts : List (List ApiCall)) (hd : DistinctIds scripts) (sched : List Tid)
    (hdone : (run Expected.progs (init mode destNil panicky scripts) sched).sh.done = true)
    (hterm : Terminal (run Expected.progs (init mode destNil panicky scripts) sched))
    (f : FinId) (hf : f ∈ appendedFins (run Expected.progs (init mode destNil panicky scripts) sched).sh.log) :
    (run Expected.progs (init mode destNil panicky scripts) sched).sh.ran.count f = 1 := by
  have hk := kinv_reachable mode destNil panicky scripts sched
  have h1 : (run Expected.progs (init mode destNil panicky scripts) sched).sh.ran.count f ≤ 1 :=
    ran_count_le_one hk f (hd f)
  have h2 : 0 < (run Expected.progs (init mode destNil panicky scripts) sched).sh.ran.count f :=
    List.count_pos_iff.mpr (terminal_all_ran hk hdone hterm f hf)
  omega

/-- … and nothing is left behind: `finalizers` and every thread's taken list are empty -/
theorem kernel_nothing_left_at_end (mode : Mode) (destNil : Bool) (panicky : List FinId)
    (scripts : List (List ApiCall)) (sched : List Tid)
    (hdone : (run Expected.progs (init mode destNil panicky scripts) sched).sh.done = true)
    (hterm : Terminal (run Expected.progs (init mode destNil panicky scripts) sched)) :
    (run Expected.progs (init mode destNil panicky scripts) sched).sh.finalizers = [] ∧
    ∀ (t : Tid) (th : Thread), (run Expected.progs (init mode destNil panicky scripts) sched).threads[t]? = some th →
      th.taken = [] :=
  terminal_drained (kinv_reachable mode destNil panicky scripts sched) hdone hterm

/-- C03: nothing runs before `done` is set -/
theorem kernel_run_implies_done (mode : Mode) (destNil : Bool) (panicky : List FinId)
    (scripts : List (List ApiCall)) (sched : List Tid)
    (h : (run Expected.progs (init mode destNil panicky scripts) sched).sh.ran ≠ []) :
    (run Expected.progs (init mode destNil panicky scripts) sched).sh.done = true :=
  (kinv_reachable mode destNil panicky scripts sched).tear.ranDone h

/-- C03: when an Add call returns, its teardown has been stored or has run -/
theorem kernel_add_returns_consumed (mode : Mode) (destNil : Bool) (panicky : List FinId)
    (scripts : List (List ApiCall)) (sched : List Tid) (t u : Tid) (f : FinId) (r : Res) (s' : St)
    (h : step Expected.progs (run Expected.progs (init mode destNil panicky scripts) sched) t = some s')
    (hlog : Logs (run Expected.progs (init mode destNil panicky scripts) sched) s' (.ret u (.add f) r)) :
    f ∈ appendedFins (run Expected.progs (init mode destNil panicky scripts) sched).sh.log ∨
    f ∈ (run Expected.progs (init mode destNil panicky scripts) sched).sh.ran :=
  add_returns_consumed (kinv_reachable mode destNil panicky scripts sched)
    (run_inv (fun s => KInv (idBound scripts) s ∧ ConsInv s)
      (fun _ _ _ hi h => ⟨hi.1.step h, hi.2.step hi.1 h⟩) sched _ ⟨KInv.init .., ConsInv.init ..⟩).2 h hlog

/-- C03: a teardown is stored (`appended`) only in a state where `done` is false … -/
theorem kernel_stored_only_when_open (mode : Mode) (destNil : Bool) (panicky : List FinId)
    (scripts : List (List ApiCall)) (sched : List Tid) (t u : Tid) (f : FinId) (s' : St)
    (h : step Expected.progs (run Expected.progs (init mode destNil panicky scripts) sched) t = some s')
    (hlog : Logs (run Expected.progs (init mode destNil panicky scripts) sched) s' (.appended u f)) :
    (run Expected.progs (init mode destNil panicky scripts) sched).sh.done = false :=
  stored_only_when_open (kinv_reachable mode destNil panicky scripts sched) h hlog

/-- … hence once `done` is set no continuation stores anything: an Add issued after `done` runs its
    teardown inside the call (with `kernel_add_returns_consumed`: at its return the teardown is in `ran`) -/
theorem kernel_add_after_done_not_stored (mode : Mode) (destNil : Bool) (panicky : List FinId)
    (scripts : List (List ApiCall)) (sched1 sched2 : List Tid)
    (hdone : (run Expected.progs (init mode destNil panicky scripts) sched1).sh.done = true) :
    appendedFins (run Expected.progs (init mode destNil panicky scripts) (sched1 ++ sched2)).sh.log =
      appendedFins (run Expected.progs (init mode destNil panicky scripts) sched1).sh.log ∧
    (run Expected.progs (init mode destNil panicky scripts) (sched1 ++ sched2)).sh.done = true := by
  rw [run_append]
  exact no_store_after_done sched2 (kinv_reachable mode destNil panicky scripts sched1) hdone

/-- the caveat: the teardown of an Add after disposal runs while the caller holds `subMu` -/
theorem kernel_runNow_holds_subMu (mode : Mode) (destNil : Bool) (panicky : List FinId)
    (scripts : List (List ApiCall)) (sched : List Tid) (t : Tid) (th : Thread)
    (ht : (run Expected.progs (init mode destNil panicky scripts) sched).threads[t]? = some th)
    (hh : th.ctl.head = .stmt .runNow) :
    (run Expected.progs (init mode destNil panicky scripts) sched).sh.subMu = some t ∧
    (run Expected.progs (init mode destNil panicky scripts) sched).sh.done = true := by
  have hi := kinv_reachable mode destNil panicky scripts sched
  have a := local_of_all lfSubHeld_all (hi.lock.inReach t th ht)
  simp only [lfSubHeld, hh] at a
  exact ⟨(hi.lock.own .subMu t th ht rfl).mp a, hi.tear.doneKnown t th ht (by simp [Ctl.doneKnown, hh])⟩

/-- C03: the joined panic is raised after the loop — the raising thread has nothing left to run,
    and every finalizer named in the panic has run -/
theorem kernel_raise_after_loop (mode : Mode) (destNil : Bool) (panicky : List FinId)
    (scripts : List (List ApiCall)) (sched : List Tid) (t u : Tid) (fs : List FinId) (s' : St)
    (h : step Expected.progs (run Expected.progs (init mode destNil panicky scripts) sched) t = some s')
    (hlog : Logs (run Expected.progs (init mode destNil panicky scripts) sched) s' (.raised u fs)) :
    u = t ∧
    (∃ th, (run Expected.progs (init mode destNil panicky scripts) sched).threads[t]? = some th ∧ th.taken = [] ∧ th.panics = fs) ∧
    ∀ p ∈ fs, p ∈ (run Expected.progs (init mode destNil panicky scripts) sched).sh.ran :=
  raise_after_loop (kinv_reachable mode destNil panicky scripts sched) h hlog

/-- C03 on the history: every `raised` event (the joined panic of an Unsubscribe) is preceded in the
    log by the runs of all the finalizers it names; with `kernel_raise_after_loop` (at that moment the
    raising thread's taken list is empty: everything it took has run) the raise follows every
    finalizer run of that Unsubscribe -/
theorem kernel_raiseLog (mode : Mode) (destNil : Bool) (panicky : List FinId) (scripts : List (List ApiCall))
    (sched : List Tid) : raiseLog (run Expected.progs (init mode destNil panicky scripts) sched).sh.log = true :=
  (xinv_reachable mode destNil panicky scripts sched).wr.raise

/-- C03 on the history: no finalizer id occurs twice among the `finRun` events -/
theorem kernel_finOnceLog (mode : Mode) (destNil : Bool) (panicky : List FinId) (scripts : List (List ApiCall))
    (hd : DistinctIds scripts) (sched : List Tid) :
    (finRuns (run Expected.progs (init mode destNil panicky scripts) sched).sh.log).Nodup := by
  rw [kernel_finRuns_log]
  exact List.nodup_iff_count.mpr (fun f => kernel_finalizer_at_most_once mode destNil panicky scripts hd sched f)

/-! ### non-vacuity -/

-- three finalizers stored (one panicking), a Complete racing two Unsubscribes, a late Add: all run
-- once, the panic of 2 is raised by the thread that ran the loop, the late Add (4) runs inline
def demoScripts : List (List ApiCall) := [[.add 1, .add 2, .add 3, .complete], [.unsubscribe, .add 4], [.unsubscribe]]
def demo : St := runRounds Expected.progs [0, 0, 0, 0, 0, 0, 0, 0, 1, 2] 100 (init .safe false [2] demoScripts)

example : demo.sh.ran = [1, 2, 3, 4] := by decide +kernel
example : appendedFins demo.sh.log = [1, 2, 3] := by decide +kernel
example : demo.sh.log.filter (fun e => match e with | .raised _ _ => true | _ => false) = [.raised 0 [2]] := by
  decide +kernel
-- the terminal-state hypothesis is reachable: nobody can move and done is set
example : demo.sh.done = true ∧ step Expected.progs demo 0 = none ∧ step Expected.progs demo 1 = none ∧
    step Expected.progs demo 2 = none := by decide +kernel
example : DistinctIds demoScripts := by
  intro f
  have h : (List.filterMap finOf demoScripts.flatten) = [1, 2, 3, 4] := by decide
  simp only [idBound, h]
  exact List.nodup_iff_count.mp (by decide) f

end Ro.C03

#print axioms Ro.KernelTie.progs_are_the_source
#print axioms Ro.C03.kernel_finalizer_at_most_once
#print axioms Ro.C03.kernel_finRuns_log
#print axioms Ro.C03.kernel_finalizers_exactly_once_at_end
#print axioms Ro.C03.kernel_nothing_left_at_end
#print axioms Ro.C03.kernel_run_implies_done
#print axioms Ro.C03.kernel_add_returns_consumed
#print axioms Ro.C03.kernel_stored_only_when_open
#print axioms Ro.C03.kernel_add_after_done_not_stored
#print axioms Ro.C03.kernel_runNow_holds_subMu
#print axioms Ro.C03.kernel_raise_after_loop
#print axioms Ro.C03.kernel_raiseLog
#print axioms Ro.C03.kernel_finOnceLog

/-
  C07 — errors and panics surface once as an Error notification, never as a crash.

  Model: `RoModel/Fault.lean` — `runOp`'s pipeline  source ─U─O─[closure]─D─F  with an `Outcome` for
  every invocation of user code and the kernel wrappers (`tryNext`/`tryError`/`tryComplete`, the
  recover of `SubscribeWithContext`, `execFinalizer`, `subscription.Add`) read line by line;
  `RoModel/Fault/Ops.lean` — where each catalogue closure calls its callback. Tied to the real code
  by `kind=fault` (go/harness/fault.go against RoModel/Drivers/Fault.lean).

  Proved, for every operator machine `fm` (parametric in its callbacks), every raw script (legal or
  not), both source modes, every subscription context:
   * `next_fault`       a plan over the Next-position callback whose first failing invocation panics
                        (error value or any other value): delivered = what the un-faulted operator
                        delivers for the inputs before ++ [Error(observer(p))], Grammar, the cause in
                        the `Unwrap` chain, nothing escaped, nothing unhandled, downstream closed,
                        source unsubscribed and torn down exactly once; later faults change nothing.
   * `error_return`     the same for `return …, err` of an error-aware callback (`MapErr`): Error(err)
                        unwrapped, with the context the callback returned.
   * `subscribe_fn_panic` a panic of the source's subscribe function after j notifications = those j
                        notifications, then Error(subscriberCtx, observable(p)), then Unsubscribe().
   * `fault_not_reached` a plan that is never reached changes nothing.
   * `grammar_partial`  EVERY plan in which the final observer's next callback does not panic (all
                        other positions may, teardown included): values, at most one terminal, nothing after.
   * `agree`            for ANY plan over the Next-position callback (any number of panics and error
                        returns) the run is `runOp` of the injected machine: same trace, same drops —
                        so C01's grammar/partition theorems and C04's specifications transfer.
   * `never_escapes`    for EVERY plan that leaves the source's teardown alone (operator callbacks in
                        all positions, source subscribe function, the final observer's three
                        callbacks; any number of faults): no panic reaches the goroutine that called
                        Subscribe / Next / Error / Complete / Unsubscribe.
   * `every_failure_reaches_someone`  for every such plan (pairs, triples, …): each injected panic is
                        in the chain of an error given to the final observer's error callback, of a
                        dropped Error notification (the second failure), or of an error given to
                        `OnUnhandledError` (failures no one can receive).
   * `finalizers_*`     `Unsubscribe` runs every finalizer whatever subset panics and re-raises
                        exactly their `unsubscriptionError`s, joined, after the loop.
   * `go_statements_recovered`  (F) every `go` statement / `time.AfterFunc` of the regenerated
                        catalogue that calls user code is wrapped in `recoverUnhandledError` (no
                        exception since fix 8bf73dd repaired `Future`).

  Deviations of the pinned tree (each: witness theorem by `decide`, the `_partial` that excludes
  exactly that class, a known finding replayed on the real code):
   (i)   a panic of the FINAL observer's next callback is handed to its error callback but the
         observer stays open: `N, E, N, C` (`final_onNext_panic_witness`; `grammar_partial` excludes
         exactly the plans with a panicking `fN`).
   (ii)  a panic in an Error/Complete-position callback (`ThrowIfEmpty`'s throw, `Catch`'s handler,
         `Tap`'s onError/onComplete) goes to the unhandled hook and the subscriber never gets a
         terminal (`throwIfEmpty_throw_panic_witness`, `catch_handler_panic_witness`,
         `tap_onError_panic_witness`, `tap_onComplete_panic_witness`; `next_fault` is about the Next
         position only). With `Tap`, a Next-callback panic followed by a panic of the error callback
         that receives it loses the first cause altogether (`tap_first_cause_lost_witness`;
         `every_failure_reaches_someone` requires `Forwards`, which `Tap` does not satisfy).
   (iii) `Future` — repaired in /repo (8bf73dd: goroutine recovered; 34cf01a: a factory panic becomes
         `Error(observable(p))`); now a theorem, not a deviation: `future_factory_panic`.
   (v)   a panicking teardown is re-raised to whoever triggered the unsubscription: into the
         producer's goroutine for a hot source (`teardown_panic_escapes_witness`), into the caller
         of `Unsubscribe` (`teardown_panic_unsubscribe_witness`); inside `Subscribe` it is recovered
         and surfaces only as a dropped Error (`teardown_panic_dropped_witness`). Excluded by
         `never_escapes` (`srcTd = none`).
   (vi)  (found while building this slice) `subscriberImpl.NextWithContext` unlocks without `defer`:
         a hand-written `Observer` whose `Next` panics leaves the producer mutex locked and the
         recover handler of `SubscribeWithContext` deadlocks on it (`raw_observer_lock_witness`,
         `raw_observer_partial`).
  Not modelled here: (iv) `Share` over a synchronous source (belongs to the Share model of C11) and
  the subject half of (v) (a teardown panic under a subject's mutex; needs the subject models of C10).
-/
import RoProofs.Fault.Next
import RoProofs.Fault.Kernel
import RoProofs.Fault.Grammar
import RoProofs.Fault.SubscribeFn
import RoProofs.Ops.Basic
import RoGen.Catalogue
import RoGen.FaultFacts
import RoProofs.ObsNil
import RoProofs.ObsPartial
namespace Ro.C07
open Ro Ro.Fault

deriving instance DecidableEq for Ro.Drop

variable {σ α β : Type}

/-! ## theorems -/

/-- Next position, first failing invocation (statement in `RoProofs/Fault/Next.lean`) -/
theorem next_fault (fm : FMachine σ α β) (cbN : Nat → Option Fault.Fault) (f : Fault.Fault) (p : Err)
    (mode : SrcMode) (sub : Ctx) (raw pre post : List (Notif α)) (c : Ctx) (v : α)
    (hs : fm.base.subscribes = true)
    (hsub : hasTerm (fm.base.onSubscribe fm.base.init sub).2 = false)
    (hraw : gate raw = pre ++ .next c v :: post)
    (hf : cbN (countCalls fm (fm.base.onSubscribe fm.base.init sub).1 pre) = some f) (hp : f.recovered = some p)
    (hfirst : ∀ i, i < countCalls fm (fm.base.onSubscribe fm.base.init sub).1 pre → cbN i = none)
    (hcall : fm.callsN (fm.base.after (fm.base.onSubscribe fm.base.init sub).1 pre) c v = true)
    (hfwd : ∀ e, (fm.base.onError (fm.base.after (fm.base.onSubscribe fm.base.init sub).1 pre) c e).2 = [.error c e]) :
    Surfaced fm (nextPlan cbN) mode sub raw (runOp fm.base mode sub pre).out c p :=
  next_fault_surfaces fm cbN f p mode sub raw pre post c v hs hsub hraw hf hp hfirst hcall hfwd

theorem fault_not_reached (fm : FMachine σ α β) (cbN : Nat → Option Fault.Fault) (mode : SrcMode) (sub : Ctx)
    (raw : List (Notif α)) (hs : fm.base.subscribes = true)
    (hsub : hasTerm (fm.base.onSubscribe fm.base.init sub).2 = false)
    (hnone : ∀ i, i < countCalls fm (fm.base.onSubscribe fm.base.init sub).1 (gate raw) → cbN i = none) :
    (runScript fm (nextPlan cbN) mode sub raw).2 = [] ∧
    (runScript fm (nextPlan cbN) mode sub raw).1.trace = (runOp fm.base mode sub raw).out ∧
    (runScript fm (nextPlan cbN) mode sub raw).1.unhandled = [] :=
  Fault.fault_not_reached fm cbN mode sub raw hs hsub hnone

/-- an error returned by the callback of an error-aware operator (statement in `RoProofs/Fault/Next.lean`) -/
theorem error_return (fm : FMachine σ α β) (cbN : Nat → Option Fault.Fault) (e : Err)
    (h : σ → Ctx → α → Err → σ × List (Notif β))
    (mode : SrcMode) (sub : Ctx) (raw pre post : List (Notif α)) (c c' : Ctx) (v : α)
    (hs : fm.base.subscribes = true)
    (hsub : hasTerm (fm.base.onSubscribe fm.base.init sub).2 = false)
    (hraw : gate raw = pre ++ .next c v :: post)
    (hh : fm.onErrRet = some h)
    (hf : cbN (countCalls fm (fm.base.onSubscribe fm.base.init sub).1 pre) = some (.errRet e))
    (hfirst : ∀ i, i < countCalls fm (fm.base.onSubscribe fm.base.init sub).1 pre → cbN i = none)
    (hcall : fm.callsN (fm.base.after (fm.base.onSubscribe fm.base.init sub).1 pre) c v = true)
    (hret : (h (fm.base.after (fm.base.onSubscribe fm.base.init sub).1 pre) c v e).2 = [.error c' e]) :
    Returned fm (nextPlan cbN) mode sub raw (runOp fm.base mode sub pre).out c' e :=
  error_return_surfaces fm cbN e h mode sub raw pre post c c' v hs hsub hraw hh hf hfirst hcall hret

/-- `_partial` for deviation (i), at full generality: every machine, EVERY plan in which the final
    observer's next callback does not panic (all other positions may fail, any number of times,
    teardown included): the final observer sees values, at most one terminal, nothing after —
    during the script and after the follow-up notification and the final `Unsubscribe()` -/
theorem grammar_partial (fm : FMachine σ α β) (P : Plan) (hN : ∀ k, panicAt P.fN k = none) (mode : SrcMode)
    (sub : Ctx) (raw : List (Notif α)) (fu : Notif α) :
    Grammar (runScript fm P mode sub raw).1.trace ∧ Grammar (Fault.run fm P mode sub raw fu).fin.trace :=
  grammar_unless_final_next_panics P hN fm mode sub raw fu

/-- the subscribe function of the source panics with `p` right before its `j`-th notification
    (any machine, any plan otherwise): the first `j` notifications are delivered, then
    `Error(subscriberCtx, observable(p))` goes to the same subscriber, then `Unsubscribe()` — so
    the failure enters the pipeline as an ordinary upstream error and everything proved about
    upstream errors applies to it -/
theorem subscribe_fn_panic (fm : FMachine σ α β) (P : Plan) (j : Nat) (f : Fault.Fault) (p : Err)
    (hss : P.srcSub = some (j, f)) (hp : f.recovered = some p) (sub : Ctx) (raw : List (Notif α)) (s : St σ α β) :
    srcSubscribe fm P sub raw s =
      match thenPanics p (feedAll fm P { s with subs := s.subs + 1 } (raw.take j)) with
      | (s1, some q) =>
        (match uFeed fm P s1 (.error sub (.observable q)) with
         | (s2, some x) => (s2, some x)
         | (s2, none) => opTeardown P s2)
      | (s1, none) => (s1, none) :=
  srcSubscribe_panics fm P j f p hss hp sub raw s

/-- any plan over the Next-position callback: the run is `runOp` of the injected machine -/
theorem agree (fm : FMachine σ α β) (cbN : Nat → Option Fault.Fault) (mode : SrcMode) (sub : Ctx)
    (raw : List (Notif α)) (hs : fm.base.subscribes = true)
    (hsub : hasTerm (fm.base.onSubscribe fm.base.init sub).2 = false) :
    (runScript fm (nextPlan cbN) mode sub raw).2 = [] ∧
      Agree (runScript fm (nextPlan cbN) mode sub raw).1 (runOp (inject fm cbN) mode sub raw) :=
  runScript_agree fm cbN mode sub raw hs hsub

/-- … hence values, at most one terminal, nothing after it — however many invocations fail -/
theorem grammar_next_plans (fm : FMachine σ α β) (cbN : Nat → Option Fault.Fault) (mode : SrcMode) (sub : Ctx)
    (raw : List (Notif α)) (hs : fm.base.subscribes = true)
    (hsub : hasTerm (fm.base.onSubscribe fm.base.init sub).2 = false) :
    Grammar (runScript fm (nextPlan cbN) mode sub raw).1.trace := by
  rw [(runScript_agree fm cbN mode sub raw hs hsub).2.trace]
  exact runOp_grammar _ _ _ _

/-- every plan without a teardown fault, every machine: nothing escapes — during the script, from
    the follow-up notification, or from the final `Unsubscribe()` -/
theorem never_escapes (fm : FMachine σ α β) (P : Plan) (htd : P.srcTd = none) (mode : SrcMode) (sub : Ctx)
    (raw : List (Notif α)) (fu : Notif α) :
    (Fault.run fm P mode sub raw fu).escaped = [] ∧ (Fault.run fm P mode sub raw fu).escapedFin = [] :=
  no_escape_fin P htd fm mode sub raw fu

/-- every plan over the operator's callbacks (three positions) and the final observer's callbacks,
    any number of faults: each injected panic reaches the final observer, the drop hook or the
    unhandled hook with its cause still in the chain -/
theorem every_failure_reaches_someone (fm : FMachine σ α β) (hfm : Forwards fm) (P : Plan)
    (htd : P.srcTd = none) (hss : P.srcSub = none) (hcs : P.cbS = none) (mode : SrcMode) (sub : Ctx)
    (raw : List (Notif α)) :
    ∀ p ∈ (runScript fm P mode sub raw).1.fired, Accounted (runScript fm P mode sub raw).1 p :=
  all_accounted P htd hss hcs fm hfm mode sub raw

theorem finalizers_all_run (fs : List (Option Err)) :
    (runFinalizers fs).1 = fs.length ∧ (runFinalizers fs).2 = fs.filterMap (fun f => f.map Err.unsubscription) :=
  runFinalizers_spec fs

theorem finalizers_cause_kept (fs : List (Option Err)) (p : Err) (h : some p ∈ fs) :
    ∃ e ∈ (runFinalizers fs).2, p ∈ e.chain := runFinalizers_cause fs p h

/-! ### one operator spelled out with its C04 specification: `Map` -/

theorem hasTerm_spec_map_never (f : Ctx → α → Nat → Ctx × β) (vs : List (Ctx × α)) :
    hasTerm (Spec.map f vs .never) = false := by
  simp [Spec.map, Ending.toList, hasTerm_map_nextlike]

theorem countCalls_always {σ' : Type} (m : Machine σ' α β) :
    ∀ (pre : List (Notif α)) (s : σ'), hasTerm pre = false → countCalls (always m) s pre = pre.length := by
  intro pre
  induction pre with
  | nil => intro s _; rfl
  | cons x xs ih =>
    intro s h
    cases x with
    | next c v =>
      simp only [hasTerm_cons, Notif.isTerminal_next, Bool.false_or] at h
      have e : countCalls (always m) s (.next c v :: xs) = 1 + countCalls (always m) (m.onNext s c v).1 xs := rfl
      rw [e, ih _ h, List.length_cons]; omega
    | error c e => simp at h
    | complete c => simp at h

/-- `Map(project)` where invocation `k` of `project` panics (and `k` is the first planned fault):
    the subscriber receives the projections of the first `k` values, then `Error(observer(p))`
    with the context of value `k`, and nothing else. -/
theorem map_fault (f : Ctx → α → Nat → Ctx × β) (cbN : Nat → Option Fault.Fault) (flt : Fault.Fault) (p : Err)
    (mode : SrcMode) (sub : Ctx) (raw pre post : List (Notif α)) (c : Ctx) (v : α)
    (hraw : gate raw = pre ++ .next c v :: post)
    (hf : cbN pre.length = some flt) (hp : flt.recovered = some p)
    (hfirst : ∀ i, i < pre.length → cbN i = none) :
    (runScript (mapF f) (nextPlan cbN) mode sub raw).1.trace =
      Spec.map f (values pre) .never ++ [.error c (.observer p)] ∧
    (runScript (mapF f) (nextPlan cbN) mode sub raw).2 = [] ∧
    (runScript (mapF f) (nextPlan cbN) mode sub raw).1.unhandled = [] ∧
    (runScript (mapF f) (nextPlan cbN) mode sub raw).1.rel = 1 := by
  have hpre : hasTerm pre = false := gate_prefix_noTerm raw pre post _ hraw
  have hcc : countCalls (mapF f) ((mapF f).base.onSubscribe (mapF f).base.init sub).1 pre = pre.length :=
    countCalls_always (mapM f) pre _ hpre
  have h := next_fault_surfaces (mapF f) cbN flt p mode sub raw pre post c v rfl rfl hraw
    (by rw [hcc]; exact hf) hp (by rw [hcc]; exact hfirst) rfl (fun _ => rfl)
  have hend : ending pre = .never := by
    clear h hcc hf hfirst hraw
    induction pre with
    | nil => rfl
    | cons x xs ih =>
      cases x with
      | next c v => simp only [hasTerm_cons, Notif.isTerminal_next, Bool.false_or] at hpre; simpa [ending] using ih hpre
      | error c e => simp at hpre
      | complete c => simp at hpre
  have hout : (runOp (mapF f).base mode sub pre).out = Spec.map f (values pre) .never := by
    have := map_spec f mode sub pre
    rw [hend] at this
    exact this
  refine ⟨?_, h.escaped, h.unhandled, h.released.2.2⟩
  rw [h.trace, hout, hasTerm_spec_map_never]
  rfl

/-! ## F: `go` statements over the regenerated catalogue -/

/-- every `go` statement / `time.AfterFunc` whose body calls a user-supplied function is wrapped in
    `recoverUnhandledError`, except in the operators listed as known -/
def goOK (known : List String) (t : List Facts.OpFact) : Bool :=
  t.all (fun r => r.goStmts.all (fun g => !g.callsUser || g.recovered || known.contains r.name))

/-- lifting lemma, for an arbitrary table -/
theorem goOK_sound (known : List String) (t : List Facts.OpFact) (h : goOK known t = true)
    (r : Facts.OpFact) (hr : r ∈ t) (g : Facts.GoFact) (hg : g ∈ r.goStmts)
    (hu : g.callsUser = true) (hk : known.contains r.name = false) : g.recovered = true := by
  have h1 := List.all_eq_true.mp h r hr
  have h2 := List.all_eq_true.mp h1 g hg
  rw [hu, hk] at h2
  simpa using h2

/-- … so a panic of user code on such a goroutine never kills the process -/
theorem go_user_code_never_crashes (known : List String) (t : List Facts.OpFact) (h : goOK known t = true)
    (r : Facts.OpFact) (hr : r ∈ t) (g : Facts.GoFact) (hg : g ∈ r.goStmts)
    (hu : g.callsUser = true) (hk : known.contains r.name = false) (p : Option Err) :
    ∀ e, goBody g.recovered p ≠ .crash e := by
  rw [goOK_sound known t h r hr g hg hu hk]
  exact goBody_recovered p

/-- decided on the table regenerated from the source on this run — no exclusion list any more:
    `Future` was the one exception and is repaired (fix commit 8bf73dd) -/
theorem go_statements_recovered : goOK [] RoGen.Catalogue.table = true := by decide

/-- every goroutine the library starts (`go` statement) runs under `recoverUnhandledError`, whether or not its body
    calls a user function directly: each of them sends notifications or registers / releases subscriptions, so a
    TEARDOWN that panics — re-raised by `Unsubscribe` to whoever triggered it (C03) — can surface on it (ToChannel
    registering its upstream subscription on a subscription disposed in the meantime; ThrowOnContextCancel / Never
    sending the terminal on context cancellation; repaired by /repo 2d51ab1, before which such a panic killed the
    process) -/
def allGoRecovered (t : List Facts.OpFact) : Bool :=
  t.all (fun r => r.goStmts.all (fun g => !(g.kind == "go") || g.recovered))

theorem every_goroutine_recovered : allGoRecovered RoGen.Catalogue.table = true := by decide

/-- … hence whatever is raised on a library goroutine (user code or a re-raised teardown panic) goes to the
    unhandled-error hook, never to the runtime -/
theorem library_goroutine_never_crashes (r : Facts.OpFact) (hr : r ∈ RoGen.Catalogue.table) (g : Facts.GoFact)
    (hg : g ∈ r.goStmts) (hk : g.kind = "go") (p : Option Err) : ∀ e, goBody g.recovered p ≠ .crash e := by
  have h1 := List.all_eq_true.mp every_goroutine_recovered r hr
  have h2 := List.all_eq_true.mp h1 g hg
  have hrec : g.recovered = true := by
    rw [hk] at h2
    simpa using h2
  rw [hrec]
  exact goBody_recovered p

/-- what a bare goroutine would mean at run time (the state of `Future` before 8bf73dd) -/
theorem bare_goroutine_crashes (p : Err) : goBody false (some p) = .crash p := rfl

/-- (iii, repaired by 8bf73dd + 34cf01a) `Future`: whatever the factory does, nothing is left for
    the goroutine's wrapper; a returning factory delivers `Next, Complete`; a panicking factory
    (error value or any other value) reaches the subscriber exactly once, as an Error notification
    whose `Unwrap` chain contains the cause, with nothing after it -/
theorem future_factory_panic (p : Err) (v : Int) :
    (futureRun (some p) v).res = .returned ∧
    (futureRun (some p) v).seen = [.error {} (.observable p)] ∧
    p ∈ (Err.observable p).chain ∧
    Grammar (futureRun (some p) v).seen :=
  ⟨rfl, rfl, Err.mem_chain_observable p p (Err.self_mem_chain p), by simp [futureRun, Grammar]⟩

theorem future_factory_returns (v : Int) :
    futureRun none v = { res := .returned, seen := [.next {} v, .complete {}] } := rfl

/-! ## deviation witnesses (each replayed on the real code, see known_findings.jsonl) -/

def at1 (k : Nat) (f : Fault.Fault) : Nat → Option Fault.Fault := fun i => if i = k then some f else none

def c (m : Nat) : Ctx := ({} : Ctx).tag 7 |>.tag m
def dbl : Ctx → Int → Nat → Ctx × Int := fun c v _ => (c, v * 2)
def s123C : List (Notif Int) := [.next (c 1) 1, .next (c 2) 2, .next (c 3) 3, .complete (c 4)]

/-- (i) the final observer's next callback panics on the 2nd value: its error callback is called,
    then the stream goes on — `N, N, E, N, C` at the user's callbacks -/
theorem final_onNext_panic_witness :
    (runScript (mapF dbl) { fN := at1 1 (.panicErr (.user 5)) } .sync (c 0) s123C).1.trace =
      [.next (c 1) 2, .next (c 2) 4, .error (c 2) (.observer (.user 5)), .next (c 3) 6, .complete (c 4)] := by decide

theorem final_onNext_panic_breaks_grammar :
    ¬ Grammar (runScript (mapF dbl) { fN := at1 1 (.panicErr (.user 5)) } .sync (c 0) s123C).1.trace := by decide

/-- (ii) `ThrowIfEmpty`: `throw()` panics at the completion of an empty source — the subscriber
    gets nothing at all, the hook gets the error -/
theorem throwIfEmpty_throw_panic_witness :
    (runScript (throwIfEmptyF (α := Int) (.user 4)) { cbC := at1 0 (.panicErr (.user 5)) } .sync (c 0) [.complete (c 1)]).1.trace = [] ∧
    (runScript (throwIfEmptyF (α := Int) (.user 4)) { cbC := at1 0 (.panicErr (.user 5)) } .sync (c 0) [.complete (c 1)]).1.unhandled
      = [.observer (.user 5)] := by decide

/-- (ii) `Catch`: the handler panics — values delivered, no terminal ever -/
theorem catch_handler_panic_witness :
    (runScript (catchF (fun cx _ => [Notif.next cx (9 : Int), .complete cx])) { cbE := at1 0 (.panicVal 6) } .hot (c 0)
        [.next (c 1) 1, .error (c 2) (.user 1)]).1.trace = [.next (c 1) 1] ∧
    (runScript (catchF (fun cx _ => [Notif.next cx (9 : Int), .complete cx])) { cbE := at1 0 (.panicVal 6) } .hot (c 0)
        [.next (c 1) 1, .error (c 2) (.user 1)]).1.unhandled = [.observer (.panicVal 6)] := by decide

/-- (ii) `Tap`: onError panics — the source's error never reaches the subscriber -/
theorem tap_onError_panic_witness :
    (runScript (tapF (α := Int)) { cbE := at1 0 (.panicErr (.user 5)) } .sync (c 0)
        [.next (c 1) 1, .error (c 2) (.user 1)]).1.trace = [.next (c 1) 1] ∧
    (runScript (tapF (α := Int)) { cbE := at1 0 (.panicErr (.user 5)) } .sync (c 0)
        [.next (c 1) 1, .error (c 2) (.user 1)]).1.unhandled = [.observer (.user 5)] := by decide

theorem tap_onComplete_panic_witness :
    (runScript (tapF (α := Int)) { cbC := at1 0 (.panicErr (.user 5)) } .sync (c 0)
        [.next (c 1) 1, .complete (c 2)]).1.trace = [.next (c 1) 1] ∧
    (runScript (tapF (α := Int)) { cbC := at1 0 (.panicErr (.user 5)) } .sync (c 0)
        [.next (c 1) 1, .complete (c 2)]).1.unhandled = [.observer (.user 5)] := by decide

/-- (ii) `Tap`: onNext panics with u5, the error callback that receives `observer(u5)` panics with
    u6 — only u6 reaches a hook; u5 is lost (and the stream continues: `N 2` is delivered) -/
theorem tap_first_cause_lost_witness :
    (runScript (tapF (α := Int)) { cbN := at1 0 (.panicErr (.user 5)), cbE := at1 0 (.panicErr (.user 6)) } .sync (c 0)
        [.next (c 1) 1, .next (c 2) 2]).1.trace = [.next (c 2) 2] ∧
    (runScript (tapF (α := Int)) { cbN := at1 0 (.panicErr (.user 5)), cbE := at1 0 (.panicErr (.user 6)) } .sync (c 0)
        [.next (c 1) 1, .next (c 2) 2]).1.unhandled = [.observer (.user 6)] ∧
    (runScript (tapF (α := Int)) { cbN := at1 0 (.panicErr (.user 5)), cbE := at1 0 (.panicErr (.user 6)) } .sync (c 0)
        [.next (c 1) 1, .next (c 2) 2]).1.fired = [.user 5, .user 6] := by decide

/-- (v) hot source: the source's teardown panics when the source completes — the panic comes out
    of the producer's `Complete` call -/
theorem teardown_panic_escapes_witness :
    (runScript (mapF dbl) { srcTd := some (.panicErr (.user 5)) } .hot (c 0) [.next (c 1) 1, .complete (c 2)]).2
      = [.unsubscription (.user 5)] ∧
    (runScript (mapF dbl) { srcTd := some (.panicErr (.user 5)) } .hot (c 0) [.next (c 1) 1, .complete (c 2)]).1.trace
      = [.next (c 1) 2, .complete (c 2)] := by decide

/-- (v) an unfinished stream: the panic comes out of the subscriber's `Unsubscribe()` -/
theorem teardown_panic_unsubscribe_witness :
    (Fault.run (mapF dbl) { srcTd := some (.panicErr (.user 5)) } .sync (c 0) [.next (c 1) 1] (.next (c 9) 99)).escapedFin
      = [.unsubscription (.unsubscription (.user 5))] := by decide

/-- (v) synchronous source that completes inside `Subscribe`: the teardown runs inside
    `subscription.Add`, its panic is recovered by `SubscribeWithContext` and ends as a *dropped*
    Error notification — the subscriber saw a clean completion -/
theorem teardown_panic_dropped_witness :
    (runScript (mapF dbl) { srcTd := some (.panicErr (.user 5)) } .sync (c 0) [.next (c 1) 1, .complete (c 2)]).1.drops
      = [.up (.error (c 0) (.observable (.user 5)))] ∧
    (runScript (mapF dbl) { srcTd := some (.panicErr (.user 5)) } .sync (c 0) [.next (c 1) 1, .complete (c 2)]).2 = [] := by
  decide

/-- (vi) a hand-written `Observer` (no `tryNext` around its code) whose `Next` panics under an
    observable built with a real mutex: `subscriberImpl.NextWithContext` has no deferred unlock, the
    recover handler's `ErrorWithContext` locks the same mutex — `Subscribe` never returns -/
theorem raw_observer_lock_witness :
    (rawObserverRun false true (at1 0 (.panicErr (.user 5))) 0 [1, 2] {}).hang = true := by decide

/-- … `_partial`: with a deferred unlock, or without a real mutex, or without a panic, it returns -/
theorem raw_observer_partial (deferred safe : Bool) (fN : Nat → Option Fault.Fault) (vs : List Int)
    (h : deferred = true ∨ safe = false ∨ ∀ k, panicAt fN k = none) :
    ∀ (k : Nat) (r : RawRun), r.hang = false → (rawObserverRun deferred safe fN k vs r).hang = false := by
  induction vs with
  | nil => intro k r hr; exact hr
  | cons v vs ih =>
    intro k r hr
    unfold rawObserverRun
    cases hp : panicAt fN k with
    | none => exact ih _ _ hr
    | some p =>
      rcases h with h | h | h
      · subst h; simpa using hr
      · subst h; simpa using hr
      · rw [h k] at hp; cases hp

/-! ## F: deferred unlocks around calls into user code -/

/-- every listed kernel method was recognised and releases its mutex by a `defer` that is in force
    when it calls out — except the methods listed as known -/
def deferOK (known : List String) (t : List (String × Bool × Bool)) : Bool :=
  t.all (fun r => !r.2.2 && (r.2.1 || known.contains r.1))

/-- the model of `subscription.Add` (a teardown added after disposal runs at once and its panic
    propagates to the recover of `SubscribeWithContext`, after which the subscription is still
    usable) rests on this fact; without the `defer` the subscription's mutex stays locked for good -/
theorem add_unlock_deferred :
    (RoGen.FaultFacts.deferredUnlock.find? (·.1 == "subscriptionImpl.Add")).map (·.2) = some (true, false) := by decide

/-- decided on the facts regenerated on this run; the three `subscriberImpl` methods are the known
    finding (vi) -/
theorem deferred_unlock_partial :
    deferOK ["subscriberImpl.NextWithContext", "subscriberImpl.ErrorWithContext", "subscriberImpl.CompleteWithContext"]
      RoGen.FaultFacts.deferredUnlock = true := by decide

/-! ## non-vacuity -/

-- the hypotheses of `next_fault` / `map_fault` on a concrete run: invocation 1 of `project` panics
example : (runScript (mapF dbl) (nextPlan (at1 1 (.panicVal 3))) .hot (c 0) (s123C ++ [.next (c 5) 9])).1.trace =
    [.next (c 1) 2, .error (c 2) (.observer (.panicVal 3))] := by decide
example : gate (s123C ++ [.next (c 5) 9]) = [Notif.next (c 1) (1 : Int)] ++ .next (c 2) 2 :: [.next (c 3) 3, .complete (c 4)] := by decide
-- a pair: the second failure (invocation 2) is dropped by the closed subscriber (synchronous source)
example : (runScript (mapF dbl) (nextPlan (fun i => if i = 1 ∨ i = 2 then some (.panicErr (.user i)) else none)) .sync (c 0) s123C).1.drops =
    [.down (.error (c 3) (.observer (.user 2))), .down (.complete (c 4))] := by decide
-- an error return of MapErr's callback is forwarded unwrapped with the callback's context
example : (runScript (mapErrF (fun cx v _ => (v, cx.tag 50, none))) (nextPlan (at1 0 (.errRet (.user 7)))) .sync (c 0) s123C).1.trace =
    [.error ((c 1).tag 50) (.user 7)] := by decide
-- `Forwards` has instances and a non-instance
example : Forwards (takeWhileF (fun cx (v : Int) _ => (cx, v < 3))) := takeWhileF_forwards _
example : ¬ Forwards (tapF (α := Int)) := fun h => by have := h.noE () {} 0 rfl; cases this
-- the source's subscribe function panics after two values: Error(observable(p)) with the subscription context
example : (runScript (mapF dbl) { srcSub := some (2, .panicErr (.user 5)) } .sync (c 0) s123C).1.trace =
    [.next (c 1) 2, .next (c 2) 4, .error (c 0) (.observable (.user 5))] := by decide
example : (runFinalizers [none, some (.user 1), none, some (.panicVal 2)]) = (4, [.unsubscription (.user 1), .unsubscription (.panicVal 2)]) := by decide

/-! ### an observer built with nil callbacks (RoModel/ObsNil.lean; tie: kind=nilobs) -/

/-- "failures that no one can receive go to the unhandled-error hook": the Next callback of an observer WITHOUT an error
    callback panics while the observer is open — the panic, wrapped once and still matching its cause, reaches
    `OnUnhandledError`; nothing reaches the observer's callbacks or the dropped-notification hook; the observer stays open -/
theorem nil_error_callback_panic_unhandled (cfg : ObsNil.Cfg) (fault : Nat → Option Err) (hn : cfg.hasNext = true)
    (he : cfg.hasError = false) (s : ObsNil.St) (hs : s.status = 0) (c : Ctx) (v : Int) (p : Err) (hf : fault s.calls = some p) :
    (ObsNil.step cfg fault s (.next c v)).unhandled = s.unhandled ++ [.observer p] ∧
    (ObsNil.step cfg fault s (.next c v)).trace = s.trace ∧ (ObsNil.step cfg fault s (.next c v)).dropped = s.dropped ∧
    (ObsNil.step cfg fault s (.next c v)).status = 0 ∧ p ∈ (Err.observer p).chain :=
  ObsNil.step_panic_unhandled cfg fault hn he s hs c v p hf

/-- the dropped-notification hook only sees notifications the producer sent: a recovered panic is never reported there,
    for every configuration of nil callbacks, every fault plan and every raw script -/
theorem nil_callbacks_dropped_from_script (cfg : ObsNil.Cfg) (fault : Nat → Option Err) (script : List (Notif Int)) :
    ∀ n ∈ (ObsNil.run cfg fault script).dropped, n ∈ script := ObsNil.dropped_from_script cfg fault script

/-- … and the unhandled-error hook only sees wrapped panic values of the plan -/
theorem nil_error_callback_unhandled_only_panics (cfg : ObsNil.Cfg) (fault : Nat → Option Err) (he : cfg.hasError = false)
    (script : List (Notif Int)) :
    ∀ e ∈ (ObsNil.run cfg fault script).unhandled, ∃ k p, fault k = some p ∧ e = .observer p :=
  ObsNil.unhandled_only_panics cfg fault he script

/-- C07 / C01, a full observer (`NewObserver`) under ANY panic plan of its value callback - the listed finding "an observer
    stays open after its own `onNext` panicked", stated exactly: a value whose invocation panics is replaced, in place, by the
    wrapped panic handed to the error callback; the later values of the gated script and its terminal still follow; nothing
    reaches the unhandled-error hook -/
theorem newObserver_under_panics (fault : Nat → Option Err) (script : List (Notif Int)) :
    (ObsPartial.run .full fault script).seen = ObsPartial.pickFull fault 0 (gate script) ∧
    (ObsPartial.run .full fault script).unhandled = [] :=
  ⟨ObsPartial.seen_full_fault fault script, ObsPartial.unhandled_nil .full fault script⟩

-- the deviation from C01 in one line: an Error in the middle of the values
example : (ObsPartial.run .full (fun k => if k = 0 then some (.user 5) else none) [.next {} 1, .next {} 2, .complete {}]).seen
    = [.error {} (.observer (.user 5)), .next {} 2, .complete {}] := by decide

/-- C07 / C01, `OnNext` under ANY panic plan of its one callback (every invocation: returns | panics): the callback has
    returned normally from exactly the values of the gated script whose invocation did not panic, in order; a panic neither
    closes the observer nor loses a later value, and nothing reaches the unhandled-error hook -/
theorem onNext_under_panics (fault : Nat → Option Err) (script : List (Notif Int)) :
    (ObsPartial.run .onNext fault script).seen = ObsPartial.pick fault 0 ((gate script).filter ObsPartial.isNextB) ∧
    (ObsPartial.run .onNext fault script).unhandled = [] :=
  ⟨ObsPartial.seen_onNext_fault fault script, ObsPartial.unhandled_nil .onNext fault script⟩

-- non-vacuity: the second invocation panics; values 1 and 3 are seen, 2 is not, the stream goes on
example : (ObsPartial.run .onNext (fun k => if k = 1 then some (.user 5) else none)
    [.next {} 1, .next {} 2, .next {} 3, .complete {}, .next {} 4]).seen = [.next {} 1, .next {} 3] := by decide

/-- C07, the partial observers: whatever the one user callback does (any panic plan), the unhandled-error hook stays
    silent — the panic is handed to the EMPTY error callback the constructor supplies (it is swallowed: the documented
    "this observer will silent errors") — and it never escapes -/
theorem partial_observer_unhandled_silent (k : ObsPartial.Ctor) (fault : Nat → Option Err) (script : List (Notif Int)) :
    (ObsPartial.run k fault script).unhandled = [] :=
  ObsPartial.unhandled_nil k fault script

end Ro.C07

#print axioms Ro.C07.partial_observer_unhandled_silent
#print axioms Ro.C07.onNext_under_panics
#print axioms Ro.C07.newObserver_under_panics
#print axioms Ro.C07.nil_error_callback_panic_unhandled
#print axioms Ro.C07.nil_callbacks_dropped_from_script
#print axioms Ro.C07.nil_error_callback_unhandled_only_panics
#print axioms Ro.C07.next_fault
#print axioms Ro.C07.fault_not_reached
#print axioms Ro.C07.error_return
#print axioms Ro.C07.grammar_partial
#print axioms Ro.C07.subscribe_fn_panic
#print axioms Ro.C07.agree
#print axioms Ro.C07.grammar_next_plans
#print axioms Ro.C07.never_escapes
#print axioms Ro.C07.every_failure_reaches_someone
#print axioms Ro.C07.finalizers_all_run
#print axioms Ro.C07.finalizers_cause_kept
#print axioms Ro.C07.map_fault
#print axioms Ro.C07.goOK_sound
#print axioms Ro.C07.go_user_code_never_crashes
#print axioms Ro.C07.go_statements_recovered
#print axioms Ro.C07.every_goroutine_recovered
#print axioms Ro.C07.library_goroutine_never_crashes
#print axioms Ro.C07.bare_goroutine_crashes
#print axioms Ro.C07.future_factory_panic
#print axioms Ro.C07.future_factory_returns
#print axioms Ro.C07.final_onNext_panic_witness
#print axioms Ro.C07.final_onNext_panic_breaks_grammar
#print axioms Ro.C07.throwIfEmpty_throw_panic_witness
#print axioms Ro.C07.catch_handler_panic_witness
#print axioms Ro.C07.tap_onError_panic_witness
#print axioms Ro.C07.tap_onComplete_panic_witness
#print axioms Ro.C07.tap_first_cause_lost_witness
#print axioms Ro.C07.teardown_panic_escapes_witness
#print axioms Ro.C07.teardown_panic_unsubscribe_witness
#print axioms Ro.C07.teardown_panic_dropped_witness
#print axioms Ro.C07.raw_observer_lock_witness
#print axioms Ro.C07.raw_observer_partial
#print axioms Ro.C07.add_unlock_deferred
#print axioms Ro.C07.deferred_unlock_partial
#print axioms Ro.Fault.runFinalizers_quiet
#print axioms Ro.Fault.goBody_bare
#print axioms Ro.Fault.filterF_forwards
#print axioms Ro.Fault.distinctByF_forwards
#print axioms Ro.Fault.skipWhileF_forwards
#print axioms Ro.Fault.takeWhileF_forwards
#print axioms Ro.Fault.firstF_forwards
#print axioms Ro.Fault.lastF_forwards
#print axioms Ro.Fault.mapF_forwards
#print axioms Ro.Fault.mapErrF_forwards
#print axioms Ro.Fault.scanF_forwards
#print axioms Ro.Fault.toMapF_forwards
#print axioms Ro.Fault.allF_forwards
#print axioms Ro.Fault.containsF_forwards
#print axioms Ro.Fault.findF_forwards
#print axioms Ro.Fault.reduceF_forwards
#print axioms Ro.Fault.throwIfEmptyF_forwards
#print axioms Ro.Fault.catchF_forwards
#print axioms Ro.Fault.plain_forwards

/-
  C14 — downstream termination cancels upstream without waiting for it (and the operator half of
  C03: a closed subscription holds nothing upstream).
  (1) model: for every machine, raw script and cut position, over a hot source: downstream closed
      ⇒ the source has been unsubscribed before the closing call returned (`released`), an external
      Unsubscribe closes both sides (`cut`), and the operator is not invoked afterwards;
  (2) the model applies to the operators whose subscribe function does not wait for its source and
      whose returned teardown reaches every upstream subscription: facts `blocks`, `discarded`,
      `returns` of the regenerated table, decided by the kernel on every run.
  Pinned tree: the waiting class (`knownWaiting`) blocks inside Subscribe until its source ends —
  known findings, one witness per operator replayed by the check.
-/
import RoProofs.Release
import RoModel.FactPreds
import RoModel.Ops.Aggregate
import RoGen.Catalogue
namespace Ro.C14
open Ro Ro.Facts

theorem released {σ α β : Type} (m : Machine σ α β) (sub : Ctx) (raw : List (Notif α)) (hs : m.subscribes = true) :
    (runOp m .hot sub raw).downOpen = false → (runOp m .hot sub raw).upOpen = false :=
  runOp_hot_released m sub raw hs

theorem cut {σ α β : Type} (m : Machine σ α β) (sub : Ctx) (raw : List (Notif α)) (k : Nat) (hs : m.subscribes = true) :
    (runOpCut m sub raw k).out = (runOp m .hot sub (raw.take k)).out ∧ (runOpCut m sub raw k).upOpen = false :=
  runOpCut_out m sub raw k hs

theorem table_ok : RoGen.Catalogue.table.all c14RowOk = true := by decide

/-- the operators that block inside Subscribe are exactly the listed waiting class -/
theorem waiting_rows :
    ((RoGen.Catalogue.table.filter (·.blocks)).map (·.name)).all (knownWaiting.contains ·) = true ∧
    knownWaiting.all (fun n => RoGen.Catalogue.table.any (fun r => r.name == n && r.blocks)) = true := by decide

-- non-vacuity: Take(1) over a hot source that never ends: released after the first value
example : (runOp (takeM (α := Int) 1) .hot {} [.next {} 1, .next {} 2]).upOpen = false := by decide
example : (runOp (takeM (α := Int) 1) .hot {} [.next {} 1, .next {} 2]).drops.length = 1 := by decide

end Ro.C14

#print axioms Ro.C14.released
#print axioms Ro.C14.cut
#print axioms Ro.C14.table_ok
#print axioms Ro.C14.waiting_rows

/-
  C01 — Observable contract: values, then at most one terminal, then silence.

  (a) sequential kernel: whatever a producer does (legal script or not), what a
      subscriber/observer pair delivers obeys the grammar, and delivered ++ dropped is exactly the
      raw script, in order (nothing invented, every refused notification reaches the drop hook).
  (d) pipelines: for every operator machine (hence, by `Machine.seq`, every chain), every raw
      script, both source modes, the final observer's trace obeys the grammar.
-/
import RoProofs.Gate
import RoModel.Ops.Aggregate
import RoProofs.ObsShared
import RoProofs.ObsPartial
namespace Ro.C01

/-- (a) the delivered part obeys the grammar — every raw script -/
theorem kernel_grammar {α : Type} (raw : List (Notif α)) : Grammar (gate raw) := gate_grammar raw

/-- (a) nothing invented, nothing lost: delivered ++ dropped = raw, in order -/
theorem kernel_partition {α : Type} (raw : List (Notif α)) : gate raw ++ gateDropped raw = raw :=
  gate_partition raw

/-- (a) a second layer of subscriber changes nothing (newSubscriberImpl's reuse rule and nested
    gates are idempotent) -/
theorem kernel_idempotent {α : Type} (raw : List (Notif α)) : gate (gate raw) = gate raw := gate_idem raw

/-- (d) every operator machine, every raw script, both source modes -/
theorem operator_grammar {σ α β : Type} (m : Machine σ α β) (mode : SrcMode) (sub : Ctx)
    (raw : List (Notif α)) : Grammar (runOp m mode sub raw).out := runOp_grammar m mode sub raw

/-- (d) every chain of two (hence any number of) machines -/
theorem chain_grammar {σ₁ σ₂ α β γ : Type} (m1 : Machine σ₁ α β) (m2 : Machine σ₂ β γ)
    (mode : SrcMode) (sub : Ctx) (raw : List (Notif α)) :
    Grammar (runOp (m1.seq m2) mode sub raw).out := runOp_grammar _ mode sub raw

/-- (d) what is delivered never continues after the first terminal of the machine's emissions -/
theorem operator_silence {σ α β : Type} (m : Machine σ α β) (mode : SrcMode) (sub : Ctx)
    (raw : List (Notif α)) (hs : m.subscribes = true) :
    (runOp m mode sub raw).out =
      gate ((m.onSubscribe m.init sub).2 ++ m.emits (m.onSubscribe m.init sub).1 (gate raw)) :=
  runOp_out m mode sub raw hs

-- non-vacuity: an illegal script (value after completion, second terminal) through Take(1)
example : (runOp (takeM (α := Int) 1) .sync {} [.next {} 1, .next {} 2, .complete {}, .next {} 3, .error {} (.user 1)]).out
    = [.next {} 1, .complete {}] := by decide
example : Grammar (runOp (takeM (α := Int) 1) .hot {} [.next {} 1, .next {} 2, .complete {}, .next {} 3]).out := by decide
example : ¬ Grammar ([.complete {}, .next {} 3] : List (Notif Int)) := by decide

/-! ### one observer attached through Subscribe to two sources (RoModel/ObsShared.lean; tie: kind=sharedobs) -/

/-- whatever the two sources send, in whatever order: the shared observer receives values, then at most one terminal (of
    whichever source ends first), then nothing -/
theorem shared_observer_grammar (evs : List (Nat × Notif Int)) : Grammar (ObsShared.run evs).trace :=
  ObsShared.shared_observer_grammar evs

/-- … and every notification it does not receive is reported as dropped -/
theorem shared_observer_partition (evs : List (Nat × Notif Int)) :
    (ObsShared.run evs).trace.length + (ObsShared.run evs).dropped.length = evs.length :=
  ObsShared.shared_observer_partition evs

/-- C01 at the observer end, the partial observers (`OnNext`, `OnError`, `OnComplete`, their WithContext forms,
    `NoopObserver`; observer.go:204-263) and `NewObserver`: for every raw script, what the user's callback saw is the part
    of the GATED script that is of its kind — the values before the first terminal for `OnNext`, the first terminal when
    it is an error for `OnError`, … — and that is grammatical; the terminal is consumed (it does not reach the
    dropped-notification hook), everything after it is refused and goes to that hook, once, in order. -/
theorem partial_observer_sees (k : ObsPartial.Ctor) (script : List (Notif Int)) :
    (ObsPartial.run k ObsPartial.noFault script).seen = (gate script).filter (ObsPartial.sees k) ∧
    (ObsPartial.run k ObsPartial.noFault script).dropped = gateDropped script ∧
    Grammar (ObsPartial.run k ObsPartial.noFault script).seen :=
  ⟨ObsPartial.seen_noFault k script, ObsPartial.dropped_noFault k script, ObsPartial.seen_grammar k script⟩

-- non-vacuity: OnNext sees the two values and not the error nor what follows; the error is consumed, the rest dropped
example : ObsPartial.run .onNext ObsPartial.noFault [.next {} 1, .next {} 2, .error {} (.user 1), .next {} 3, .complete {}]
    = ⟨[.next {} 1, .next {} 2], [.next {} 3, .complete {}], []⟩ := by decide
example : ObsPartial.run .onError ObsPartial.noFault [.next {} 1, .error {} (.user 1), .error {} (.user 2)]
    = ⟨[.error {} (.user 1)], [.error {} (.user 2)], []⟩ := by decide

end Ro.C01

#print axioms Ro.C01.kernel_grammar
#print axioms Ro.C01.shared_observer_grammar
#print axioms Ro.C01.partial_observer_sees
#print axioms Ro.C01.shared_observer_partition
#print axioms Ro.C01.kernel_partition
#print axioms Ro.C01.kernel_idempotent
#print axioms Ro.C01.operator_grammar
#print axioms Ro.C01.chain_grammar
#print axioms Ro.C01.operator_silence

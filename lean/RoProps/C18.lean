/-
  C18 — data plugins are faithful lifts of the functions they wrap.

  (F) `plugins_table`: the `Plugins` table regenerated from the working tree by go/extract matches
      the hand-maintained expectation row by row (lift kind, wrapped callee with import path,
      which parameter at which position, constants) — a row may only be the pinned one or its
      repaired form. `helpers_agree`: the unexported helpers of plugins/strings and plugins/bytes
      have the same flavour-erased body, except `ellipsis` and `words` whose bodies are pinned.
  (a) `lift_map`, `lift_mapErr`, `lift_filter`: for ANY wrapped function, every raw source script,
      both source modes: the delivered stream is the function applied item by item, each result
      with the context of its item, ending at the first error, else with the source's ending.
  (b) modelled functions: base64 (4 encodings) `decode (encode bs) = some bs` for all byte lists;
      `Atoi ∘ Itoa = id` on every 64-bit int (and ErrRange outside: the bound is sharp);
      `ParseBool ∘ FormatBool = id`; `Ellipsis`: string and byte flavour return the same text for
      every input, the repaired byte helper never writes the caller's array, the pinned one
      does not write outside the truncating branch (`…_partial`) and provably writes inside it
      (witness + `ellipsisB_write_in_window`); sort: Go's insertion sort (what sort.Slice runs
      for ≤ 12 elements) IS the stable sort, any sorted permutation has the same key sequence as
      the stable sort, `Sort*` machines deliver `sorter(values)` with the terminal's context;
      readers: concatenation of delivered chunks = bytes produced (no data-with-error reads),
      repaired reader: for all scripts; witnesses: shared buffer, data lost with EOF.
  (c) regexp, templates, JSON, gob, CSV, time, Unicode case mapping are uninterpreted: for those the
      theorem is (a) instantiated by the table row — the plugin adds nothing to the function.

  Deviations of the pinned tree (known findings, each replayed on the real code by the check):
    SortStableFunc = SortFunc (`sortStableFunc_is_sortFunc_pinned`; unstable above 12 elements);
    robytes.ellipsis appends in place (`ellipsisB_writes_witness`);
    robytes.words ranges over bytes where rostrings.words ranges over runes (`words_flavours_differ_pinned`);
    NewIOReader hands out windows of one buffer (`reader_shared_buffer_witness`) and drops data
    that arrives together with the error (`reader_eof_data_lost_witness`).
-/
import RoGen.Plugins
import RoProps.C18Expected
import RoProofs.Plugins.Lift
import RoProofs.Plugins.Base64
import RoProofs.Plugins.Strconv
import RoProofs.Plugins.Text
import RoProofs.Plugins.Sort
import RoProofs.Plugins.Reader
namespace Ro.C18
open Ro Ro.Plugins Ro.PluginFacts

/-! ### (F) the regenerated table -/

/-- generated rows against expected rows, in order: equal, or the repaired form of the same operator -/
def rowsMatch : List Row → List Row → Bool
  | [], [] => true
  | g :: gs, e :: es => (g == e || (g.key == e.key && Expected.repaired.contains g)) && rowsMatch gs es
  | _, _ => false

/-- nothing the extractor did not recognise (`?…` marks an unknown construct, `.other` an unknown lift) -/
def rowKnown (r : Row) : Bool := r.lift != .other && !r.unknown

theorem plugins_table : rowsMatch RoGen.Plugins.table Expected.table = true := by decide

theorem plugins_rows_recognised : Expected.table.all rowKnown = true ∧ Expected.repaired.all rowKnown = true := by
  decide

def helperOf (pkg name : Txt) : Option Helper :=
  RoGen.Plugins.helpers.find? (fun h => h.pkg == pkg && h.name == name)

/-- same flavour-erased body, or one of the listed differences -/
def helperOk (name : Txt) : Bool :=
  match helperOf (txt% "strings") name, helperOf (txt% "bytes") name with
  | some s, some b => s.norm == b.norm || Expected.helperDiffs.contains (name, s.norm, b.norm)
  | _, _ => false

def helperNames (pkg : Txt) : List Txt :=
  (RoGen.Plugins.helpers.filter (fun h => h.pkg == pkg)).map (·.name)

theorem helpers_agree :
    helperNames (txt% "strings") = helperNames (txt% "bytes") ∧ (helperNames (txt% "strings")).all helperOk = true := by decide

/-- which helper pairs may differ at all -/
theorem helper_diffs_only : Expected.helperDiffs.map (·.1) = [txt% "ellipsis", txt% "words", txt% "ellipsis", txt% "words"] := by decide

def bodyOf (t : List Row) (plugin name : Txt) : Option (List Txt) :=
  (t.find? (fun r => r.plugin == plugin && r.name == name)).map (·.body)

/-- witness (F level): on the pinned tree `SortStableFunc` is literally `SortFunc` (sort.Slice) -/
theorem sortStableFunc_is_sortFunc_pinned :
    bodyOf Expected.table (txt% "sort") (txt% "SortStableFunc") = bodyOf Expected.table (txt% "sort") (txt% "SortFunc") ∧
    (bodyOf Expected.table (txt% "sort") (txt% "SortStableFunc")).map (·[3]?)
      = some (some (txt% "sort.Slice($l0, func($l3, $l4) { return $p0($l0[$l3], $l0[$l4]) < 0 })")) ∧
    (bodyOf Expected.repaired (txt% "sort") (txt% "SortStableFunc")).map (·[3]?)
      = some (some (txt% "sort.SliceStable($l0, func($l3, $l4) { return $p0($l0[$l3], $l0[$l4]) < 0 })")) := by
  decide

/-- witness (F level): the byte flavour of `words` ranges over bytes, the string flavour over runes -/
theorem words_flavours_differ_pinned :
    (Expected.helperDiffs.find? (fun d => d.1 == txt% "words")).map (fun d => (d.2.1[3]?, d.2.2[3]?))
    = some (some (txt% "range.runes _, $l1 in $p0 { if unicode.IsLetter($l1) || unicode.IsDigit($l1) { $l0.WriteRune($l1) } else { $l0.WriteRune(\" \") } }"),
            some (txt% "range.bytes _, $l1 in $p0 { if unicode.IsLetter($l1) || unicode.IsDigit($l1) { $l0.WriteByte($l1) } else { $l0.WriteByte(\" \") } }")) := by
  decide

/-! ### (a) parametric lifts -/

theorem lift_map {α β : Type} (f : α → β) (mode : SrcMode) (sub : Ctx) (raw : List (Notif α)) :
    (runOp (liftMap f) mode sub raw).out = liftMapSpec f (values raw) (ending raw) :=
  Plugins.lift_map f mode sub raw

theorem lift_mapErr {α β : Type} (f : α → β × Option Err) (mode : SrcMode) (sub : Ctx) (raw : List (Notif α)) :
    (runOp (liftMapErr f) mode sub raw).out = liftMapErrSpec f (values raw) (ending raw) :=
  Plugins.lift_mapErr f mode sub raw

theorem lift_filter {α : Type} (p : α → Bool) (mode : SrcMode) (sub : Ctx) (raw : List (Notif α)) :
    (runOp (liftFilter p) mode sub raw).out = liftFilterSpec p (values raw) (ending raw) :=
  Plugins.lift_filter p mode sub raw

/-- encode-then-decode is the identity on streams whenever the library pair is inverse -/
theorem lift_roundtrip {α β : Type} (enc : α → β) (dec : β → α × Option Err) (h : ∀ x, dec (enc x) = (x, none))
    (vs : List (Ctx × α)) (e : Ending) :
    liftMapErrSpec dec (vs.map (fun p => (p.1, enc p.2))) e = vs.map (fun p => Notif.next p.1 p.2) ++ e.toList :=
  Plugins.roundtrip_spec enc dec h vs e

/-! ### (b) modelled functions -/

theorem base64_roundtrip (e : Base64.Enc) (bs : List UInt8) :
    Base64.decode e (Base64.encode e (bs.map UInt8.toNat)) = some (bs.map UInt8.toNat) :=
  Base64.decode_encode_uint8 e bs

theorem atoi_itoa (n : Int) (hlo : -9223372036854775808 ≤ n) (hhi : n < 9223372036854775808) :
    Strconv.atoi (Strconv.itoa n) = .ok n := Strconv.atoi_itoa n hlo hhi

theorem atoi_itoa_out_of_range (n : Int) (h : 9223372036854775808 ≤ n ∨ n < -9223372036854775808) :
    Strconv.atoi (Strconv.itoa n) = .error .range := by
  cases h with
  | inl h => exact Strconv.atoi_itoa_above n h
  | inr h => exact Strconv.atoi_itoa_below n h

theorem parseBool_formatBool (b : Bool) : Strconv.parseBool (Strconv.formatBool b) = some b :=
  Strconv.parseBool_formatBool b

/-- string and byte flavour of `Ellipsis` return the same text, for every heap, window, length -/
theorem ellipsis_flavours_agree (h : Bytes) (s : Text.Slice) (n : Int) (hv : s.Valid h) :
    (Text.ellipsisB h s n).2.view (Text.ellipsisB h s n).1 = Text.ellipsis (s.view h) n :=
  Text.ellipsisB_view h s n hv

/-- FULL statement (false on the pinned tree): ∀ h s n, (ellipsisB h s n).1 = h.
    Holds outside the truncating branch: -/
theorem ellipsis_input_untouched_partial (h : Bytes) (s : Text.Slice) (n : Int)
    (hc : ¬ (((Text.trimSpace (s.view h)).length : Int) > n ∧ 3 ≤ (Text.trimSpace (s.view h)).length ∧ 3 < n)) :
    (Text.ellipsisB h s n).1 = h := Text.ellipsisB_heap_partial h s n hc

/-- the repaired helper satisfies the full statement and returns the same text -/
theorem ellipsis_fixed (h : Bytes) (s : Text.Slice) (n : Int) (hv : s.Valid h) :
    (Text.ellipsisBFixed h s n).1 = h ∧ (Text.ellipsisBFixed h s n).2.view h = Text.ellipsis (s.view h) n :=
  ⟨Text.ellipsisBFixed_heap h s n, Text.ellipsisBFixed_view h s n hv⟩

/-- inside the truncating branch the pinned helper ALWAYS writes in place (never a fresh array), the
    three dots land inside the input window, and nothing outside the window changes -/
theorem ellipsis_write_in_window (h : Bytes) (s : Text.Slice) (n : Int) (hv : s.Valid h)
    (hc : ((Text.trimSpace (s.view h)).length : Int) > n ∧ 3 ≤ (Text.trimSpace (s.view h)).length ∧ 3 < n) :
    ∃ w, (Text.ellipsisB h s n).2 = .window w ∧ s.off ≤ w.off ∧ w.off + w.len ≤ s.off + s.len ∧ 3 ≤ w.len ∧
      (Text.ellipsisB h s n).1 = Text.writeAt h (w.off + w.len - 3) Text.dots ∧
      (Text.ellipsisB h s n).1.length = h.length ∧
      (∀ i, i < s.off ∨ s.off + s.len ≤ i → (Text.ellipsisB h s n).1[i]? = h[i]?) ∧
      (∀ j, j < 3 → (Text.ellipsisB h s n).1[w.off + w.len - 3 + j]? = some 46) :=
  Text.ellipsisB_write_in_window h s n hv hc

/-- witness: "  hello world  " with length 8 — the caller's array reads "  hello...rld  " afterwards -/
theorem ellipsisB_writes_witness :
    Text.ellipsisB [32,32,104,101,108,108,111,32,119,111,114,108,100,32,32] ⟨0, 15, 15⟩ 8
      = ([32,32,104,101,108,108,111,46,46,46,114,108,100,32,32], .window ⟨2, 8, 13⟩) :=
  Text.ellipsisB_writes_witness

/-- Go's insertion sort (sort.Slice up to 12 elements) is the stable sort -/
theorem sort_small_is_stable {α : Type} (big : List α → List α) (lt : α → α → Bool)
    (trans : ∀ a b c, Sort.leOf lt a b → Sort.leOf lt b c → Sort.leOf lt a c)
    (total : ∀ a b, (Sort.leOf lt a b || Sort.leOf lt b a) = true) (l : List α) (h : l.length ≤ 12) :
    Sort.sortSlice big lt l = Sort.stableSort lt l := Sort.sortSlice_small big lt trans total l h

/-- whatever the large-input algorithm is, if it returns a sorted permutation so does `sort.Slice` -/
theorem sort_sorted_perm {α : Type} (big : List α → List α) (lt : α → α → Bool)
    (trans : ∀ a b c, Sort.leOf lt a b → Sort.leOf lt b c → Sort.leOf lt a c)
    (total : ∀ a b, (Sort.leOf lt a b || Sort.leOf lt b a) = true)
    (hbig : ∀ l, (big l).Perm l ∧ (big l).Pairwise (fun a b => !lt b a)) (l : List α) :
    (Sort.sortSlice big lt l).Perm l ∧ (Sort.sortSlice big lt l).Pairwise (fun a b => !lt b a) :=
  Sort.sortSlice_perm_sorted big lt trans total hbig l

/-- the stable sort is sorted, a permutation, and keeps equivalent elements in input order -/
theorem stable_sort_spec {α : Type} (lt : α → α → Bool)
    (trans : ∀ a b c, Sort.leOf lt a b → Sort.leOf lt b c → Sort.leOf lt a c)
    (total : ∀ a b, (Sort.leOf lt a b || Sort.leOf lt b a) = true) (l : List α) :
    (Sort.stableSort lt l).Perm l ∧ (Sort.stableSort lt l).Pairwise (fun a b => !lt b a) ∧
    ∀ a, (Sort.stableSort lt l).filter (fun b => !lt a b && !lt b a) = l.filter (fun b => !lt a b && !lt b a) :=
  ⟨Sort.stableSort_perm lt l, Sort.stableSort_sorted trans total l, Sort.stableSort_stable lt trans total l⟩

/-- the check's projection for `Sort`/`SortFunc` above 12 elements: every sorted permutation has
    the key sequence of the stable sort -/
theorem sort_keys_determined {α : Type} (key : α → Int) (big : List α → List α)
    (hbig : ∀ l, (big l).Perm l ∧ (big l).Pairwise (fun a b => !Sort.keyLt key b a)) (l : List α) :
    (Sort.sortSlice big (Sort.keyLt key) l).map key = (Sort.stableSort (Sort.keyLt key) l).map key :=
  Sort.sortSlice_keys_eq key big hbig l

/-- the three `Sort*` operators as machines: the sorter applied to the collected values, every
    value and the completion carrying the completion's context; a source error is forwarded alone -/
theorem sort_operator {α : Type} (sorter : List α → List α) (mode : SrcMode) (sub : Ctx) (raw : List (Notif α)) :
    (runOp (Sort.sortM sorter) mode sub raw).out = Sort.sortSpec sorter (values raw) (ending raw) :=
  Sort.sort_spec sorter mode sub raw

/-- FULL statement (false on the pinned tree): ∀ script, retained = delivered ∧ delivered.flatten = produced.
    Concatenation holds when no read returns data together with an error: -/
theorem reader_concat_partial (script : List Reader.Read) (h : ∀ rd ∈ script, rd.err.isSome → rd.data = []) :
    (Reader.runIOReader script).delivered.flatten = Reader.produced script :=
  Reader.ioReader_delivered_concat script h

/-- … and the kept chunks are intact when at most one read carries data -/
theorem reader_retained_partial (pre : List Reader.Read) (rd : Reader.Read) (rest : List Reader.Read)
    (hpre : ∀ x ∈ pre, x.data = []) (hrest : ∀ x ∈ rest, x.data = []) :
    (Reader.runIOReader (pre ++ rd :: rest)).retained = (Reader.runIOReader (pre ++ rd :: rest)).delivered :=
  Reader.ioReader_retained_partial pre rd rest hpre hrest

/-- the repaired reader: every script -/
theorem reader_fixed_concat (script : List Reader.Read) :
    (Reader.ioReaderFixed [] script).1.flatten = Reader.produced script := Reader.ioReaderFixed_concat script

theorem reader_shared_buffer_witness :
    (Reader.runIOReader [⟨[1, 2], none⟩, ⟨[3], none⟩, ⟨[], some .eof⟩]).delivered = [[1, 2], [3]] ∧
    (Reader.runIOReader [⟨[1, 2], none⟩, ⟨[3], none⟩, ⟨[], some .eof⟩]).retained = [[3, 2], [3]] := by decide

theorem reader_eof_data_lost_witness :
    (Reader.runIOReader [⟨[1, 2], none⟩, ⟨[3, 4], some .eof⟩]).delivered.flatten = [1, 2] ∧
    Reader.produced [⟨[1, 2], none⟩, ⟨[3, 4], some .eof⟩] = [1, 2, 3, 4] := by decide

-- non-vacuity of the table theorems: the generated table is not empty and a changed row is rejected
example : RoGen.Plugins.table.length = 72 := by decide
def exRow (body : Txt) : Row :=
  { plugin := txt% "strconv", name := txt% "ParseInt", params := [txt% "int", txt% "int"], lift := .mapErr, setup := [], body := [body] }
-- a constant where the parameter should be; a Map where a MapErr should be
example : rowsMatch [exRow (txt% "return strconv.ParseInt($v, 10, $p1)")] [exRow (txt% "return strconv.ParseInt($v, $p0, $p1)")] = false := by
  decide
example : rowsMatch [{ exRow (txt% "return strconv.ParseInt($v, $p0, $p1)") with lift := .map }]
    [exRow (txt% "return strconv.ParseInt($v, $p0, $p1)")] = false := by decide
example : (txt% "ab") = 1 * 256 * 256 + 97 * 256 + 98 := by decide

end Ro.C18

#print axioms Ro.C18.plugins_table
#print axioms Ro.C18.plugins_rows_recognised
#print axioms Ro.C18.helpers_agree
#print axioms Ro.C18.helper_diffs_only
#print axioms Ro.C18.sortStableFunc_is_sortFunc_pinned
#print axioms Ro.C18.words_flavours_differ_pinned
#print axioms Ro.C18.lift_map
#print axioms Ro.C18.lift_mapErr
#print axioms Ro.C18.lift_filter
#print axioms Ro.C18.lift_roundtrip
#print axioms Ro.C18.base64_roundtrip
#print axioms Ro.C18.atoi_itoa
#print axioms Ro.C18.atoi_itoa_out_of_range
#print axioms Ro.C18.parseBool_formatBool
#print axioms Ro.C18.ellipsis_flavours_agree
#print axioms Ro.C18.ellipsis_input_untouched_partial
#print axioms Ro.C18.ellipsis_fixed
#print axioms Ro.C18.ellipsis_write_in_window
#print axioms Ro.C18.ellipsisB_writes_witness
#print axioms Ro.C18.sort_small_is_stable
#print axioms Ro.C18.sort_sorted_perm
#print axioms Ro.C18.stable_sort_spec
#print axioms Ro.C18.sort_keys_determined
#print axioms Ro.C18.sort_operator
#print axioms Ro.C18.reader_concat_partial
#print axioms Ro.C18.reader_retained_partial
#print axioms Ro.C18.reader_fixed_concat
#print axioms Ro.C18.reader_shared_buffer_witness
#print axioms Ro.C18.reader_eof_data_lost_witness

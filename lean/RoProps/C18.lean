/-
  C18 — data plugins are faithful lifts of the functions they wrap.

  (F) `plugins_table`: the `Plugins` table regenerated from the working tree by go/extract EQUALS
      the hand-maintained expectation (lift kind, wrapped callee with import path, which
      parameter at which position, constants). `helpers_agree`: the unexported helpers of
      plugins/strings and plugins/bytes have the same flavour-erased body, except `ellipsis` and
      `words` whose bodies are pinned.
  (a) `lift_map`, `lift_mapErr`, `lift_filter`: for ANY wrapped function, every raw source script,
      both source modes: the delivered stream is the function applied item by item, each result
      with the context of its item, ending at the first error, else with the source's ending.
  (b) modelled functions: base64 (4 encodings) `decode (encode bs) = some bs` for all byte lists;
      `Atoi ∘ Itoa = id` on every 64-bit int (and ErrRange outside: the bound is sharp);
      `ParseBool ∘ FormatBool = id`; `Ellipsis`: string and byte flavour return the same text for
      every input and the byte helper never writes the caller's array (slice/heap model); sort:
      Go's insertion sort (what sort.Slice runs for ≤ 12 elements) IS the stable sort, any
      sorted permutation has the same key sequence as the stable sort, `Sort*` machines deliver
      `sorter(values)` with the terminal's context, `SortStableFunc` (sort.SliceStable) delivers
      the stable sort; `NewIOReader`: for every script of Read results the chunks are the data of
      the reads (none is touched later), their concatenation is everything produced.
  (c) regexp, templates, JSON, gob, CSV, time, Unicode case mapping are uninterpreted: for those the
      theorem is (a) instantiated by the table row — the plugin adds nothing to the function.

  History: the deviations found by this slice (SortStableFunc = sort.Slice, robytes.ellipsis appending
  in place, robytes.words ranging over bytes, NewIOReader handing out windows of one buffer and
  dropping data that came with an error, Random with a one-rune charset) were repaired in /repo
  (f5a4b6b, 740a09d, 214bd3e, ef635f4, 5b7f423); the models and the expected table describe the
  repaired code, the former `…_partial` theorems are full theorems now. Still open: robytes.words
  on text that is not valid UTF-8 (pinned by the existing tests; flavours differ there).
-/
import RoGen.Plugins
import RoProps.C18Expected
import RoProofs.Plugins.Lift
import RoProofs.Plugins.Base64
import RoProofs.Plugins.Strconv
import RoProofs.Plugins.Text
import RoProofs.Plugins.Sort
import RoProofs.Plugins.Reader
namespace Ro.C18
open Ro Ro.Plugins Ro.PluginFacts

/-! ### (F) the regenerated table -/

/-- nothing the extractor did not recognise (`?…` marks an unknown construct, `.other` an unknown lift) -/
def rowKnown (r : Row) : Bool := r.lift != .other && !r.unknown

theorem plugins_table : RoGen.Plugins.table = Expected.table := by decide

theorem plugins_rows_recognised : Expected.table.all rowKnown = true := by decide

def helperOf (pkg name : Txt) : Option Helper :=
  RoGen.Plugins.helpers.find? (fun h => h.pkg == pkg && h.name == name)

/-- same flavour-erased body, or one of the listed differences -/
def helperOk (name : Txt) : Bool :=
  match helperOf (txt% "strings") name, helperOf (txt% "bytes") name with
  | some s, some b => s.norm == b.norm || Expected.helperDiffs.contains (name, s.norm, b.norm)
  | _, _ => false

def helperNames (pkg : Txt) : List Txt :=
  (RoGen.Plugins.helpers.filter (fun h => h.pkg == pkg)).map (·.name)

theorem helpers_agree :
    helperNames (txt% "strings") = helperNames (txt% "bytes") ∧ (helperNames (txt% "strings")).all helperOk = true := by decide

/-- which helper pairs may differ at all -/
theorem helper_diffs_only : Expected.helperDiffs.map (·.1) = [txt% "ellipsis", txt% "words"] := by decide

def bodyOf (t : List Row) (plugin name : Txt) : Option (List Txt) :=
  (t.find? (fun r => r.plugin == plugin && r.name == name)).map (·.body)

/-- `SortStableFunc` calls sort.SliceStable, `SortFunc` and `Sort` call sort.Slice -/
theorem sortStableFunc_calls_sliceStable :
    (bodyOf Expected.table (txt% "sort") (txt% "SortStableFunc")).map (·[3]?)
      = some (some (txt% "sort.SliceStable($l0, func($l3, $l4) { return $p0($l0[$l3], $l0[$l4]) < 0 })")) ∧
    (bodyOf Expected.table (txt% "sort") (txt% "SortFunc")).map (·[3]?)
      = some (some (txt% "sort.Slice($l0, func($l3, $l4) { return $p0($l0[$l3], $l0[$l4]) < 0 })")) ∧
    bodyOf Expected.table (txt% "sort") (txt% "Sort") = bodyOf Expected.table (txt% "sort") (txt% "SortFunc") := by
  decide

/-! ### (a) parametric lifts -/

theorem lift_map {α β : Type} (f : α → β) (mode : SrcMode) (sub : Ctx) (raw : List (Notif α)) :
    (runOp (liftMap f) mode sub raw).out = liftMapSpec f (values raw) (ending raw) :=
  Plugins.lift_map f mode sub raw

theorem lift_mapErr {α β : Type} (f : α → β × Option Err) (mode : SrcMode) (sub : Ctx) (raw : List (Notif α)) :
    (runOp (liftMapErr f) mode sub raw).out = liftMapErrSpec f (values raw) (ending raw) :=
  Plugins.lift_mapErr f mode sub raw

theorem lift_filter {α : Type} (p : α → Bool) (mode : SrcMode) (sub : Ctx) (raw : List (Notif α)) :
    (runOp (liftFilter p) mode sub raw).out = liftFilterSpec p (values raw) (ending raw) :=
  Plugins.lift_filter p mode sub raw

/-- encode-then-decode is the identity on streams whenever the library pair is inverse -/
theorem lift_roundtrip {α β : Type} (enc : α → β) (dec : β → α × Option Err) (h : ∀ x, dec (enc x) = (x, none))
    (vs : List (Ctx × α)) (e : Ending) :
    liftMapErrSpec dec (vs.map (fun p => (p.1, enc p.2))) e = vs.map (fun p => Notif.next p.1 p.2) ++ e.toList :=
  Plugins.roundtrip_spec enc dec h vs e

/-! ### (b) modelled functions -/

theorem base64_roundtrip (e : Base64.Enc) (bs : List UInt8) :
    Base64.decode e (Base64.encode e (bs.map UInt8.toNat)) = some (bs.map UInt8.toNat) :=
  Base64.decode_encode_uint8 e bs

theorem atoi_itoa (n : Int) (hlo : -9223372036854775808 ≤ n) (hhi : n < 9223372036854775808) :
    Strconv.atoi (Strconv.itoa n) = .ok n := Strconv.atoi_itoa n hlo hhi

theorem atoi_itoa_out_of_range (n : Int) (h : 9223372036854775808 ≤ n ∨ n < -9223372036854775808) :
    Strconv.atoi (Strconv.itoa n) = .error .range := by
  cases h with
  | inl h => exact Strconv.atoi_itoa_above n h
  | inr h => exact Strconv.atoi_itoa_below n h

theorem parseBool_formatBool (b : Bool) : Strconv.parseBool (Strconv.formatBool b) = some b :=
  Strconv.parseBool_formatBool b

/-- string and byte flavour of `Ellipsis` return the same text, for every heap, window, length -/
theorem ellipsis_flavours_agree (h : Bytes) (s : Text.Slice) (n : Int) (hv : s.Valid h) :
    (Text.ellipsisB h s n).2.view h = Text.ellipsis (s.view h) n :=
  Text.ellipsisB_view h s n hv

/-- the byte helper never writes the caller's array: every heap, window (valid or not), length -/
theorem ellipsis_input_untouched (h : Bytes) (s : Text.Slice) (n : Int) : (Text.ellipsisB h s n).1 = h :=
  Text.ellipsisB_heap h s n

/-- what it returns is nil, a fresh array, or a sub-window of the input window -/
theorem ellipsis_result_inside (h : Bytes) (s w : Text.Slice) (n : Int) (hv : s.Valid h)
    (hw : (Text.ellipsisB h s n).2 = .window w) : w.Valid h ∧ s.off ≤ w.off ∧ w.off + w.len ≤ s.off + s.len :=
  Text.ellipsisB_window_inside h s w n hv hw

/-- Go's insertion sort (sort.Slice up to 12 elements) is the stable sort -/
theorem sort_small_is_stable {α : Type} (big : List α → List α) (lt : α → α → Bool)
    (trans : ∀ a b c, Sort.leOf lt a b → Sort.leOf lt b c → Sort.leOf lt a c)
    (total : ∀ a b, (Sort.leOf lt a b || Sort.leOf lt b a) = true) (l : List α) (h : l.length ≤ 12) :
    Sort.sortSlice big lt l = Sort.stableSort lt l := Sort.sortSlice_small big lt trans total l h

/-- whatever the large-input algorithm is, if it returns a sorted permutation so does `sort.Slice` -/
theorem sort_sorted_perm {α : Type} (big : List α → List α) (lt : α → α → Bool)
    (trans : ∀ a b c, Sort.leOf lt a b → Sort.leOf lt b c → Sort.leOf lt a c)
    (total : ∀ a b, (Sort.leOf lt a b || Sort.leOf lt b a) = true)
    (hbig : ∀ l, (big l).Perm l ∧ (big l).Pairwise (fun a b => !lt b a)) (l : List α) :
    (Sort.sortSlice big lt l).Perm l ∧ (Sort.sortSlice big lt l).Pairwise (fun a b => !lt b a) :=
  Sort.sortSlice_perm_sorted big lt trans total hbig l

/-- the stable sort is sorted, a permutation, and keeps equivalent elements in input order -/
theorem stable_sort_spec {α : Type} (lt : α → α → Bool)
    (trans : ∀ a b c, Sort.leOf lt a b → Sort.leOf lt b c → Sort.leOf lt a c)
    (total : ∀ a b, (Sort.leOf lt a b || Sort.leOf lt b a) = true) (l : List α) :
    (Sort.stableSort lt l).Perm l ∧ (Sort.stableSort lt l).Pairwise (fun a b => !lt b a) ∧
    ∀ a, (Sort.stableSort lt l).filter (fun b => !lt a b && !lt b a) = l.filter (fun b => !lt a b && !lt b a) :=
  ⟨Sort.stableSort_perm lt l, Sort.stableSort_sorted trans total l, Sort.stableSort_stable lt trans total l⟩

/-- the check's projection for `Sort`/`SortFunc` above 12 elements: every sorted permutation has
    the key sequence of the stable sort -/
theorem sort_keys_determined {α : Type} (key : α → Int) (big : List α → List α)
    (hbig : ∀ l, (big l).Perm l ∧ (big l).Pairwise (fun a b => !Sort.keyLt key b a)) (l : List α) :
    (Sort.sortSlice big (Sort.keyLt key) l).map key = (Sort.stableSort (Sort.keyLt key) l).map key :=
  Sort.sortSlice_keys_eq key big hbig l

/-- the three `Sort*` operators as machines: the sorter applied to the collected values, every
    value and the completion carrying the completion's context; a source error is forwarded alone -/
theorem sort_operator {α : Type} (sorter : List α → List α) (mode : SrcMode) (sub : Ctx) (raw : List (Notif α)) :
    (runOp (Sort.sortM sorter) mode sub raw).out = Sort.sortSpec sorter (values raw) (ending raw) :=
  Sort.sort_spec sorter mode sub raw

/-- `SortStableFunc` (sort.SliceStable, modelled by the stable sort): for every comparison that is a
    total preorder, every raw script, the machine delivers the values sorted, as a permutation,
    with equivalent values in their input order — all with the completion's context -/
theorem sortStableFunc_stable {α : Type} (lt : α → α → Bool)
    (trans : ∀ a b c, Sort.leOf lt a b → Sort.leOf lt b c → Sort.leOf lt a c)
    (total : ∀ a b, (Sort.leOf lt a b || Sort.leOf lt b a) = true)
    (mode : SrcMode) (sub : Ctx) (raw : List (Notif α)) :
    (runOp (Sort.sortM (Sort.stableSort lt)) mode sub raw).out = Sort.sortSpec (Sort.stableSort lt) (values raw) (ending raw) ∧
    ∀ l, (Sort.stableSort lt l).Perm l ∧ (Sort.stableSort lt l).Pairwise (fun a b => !lt b a) ∧
      ∀ a, (Sort.stableSort lt l).filter (fun b => !lt a b && !lt b a) = l.filter (fun b => !lt a b && !lt b a) :=
  ⟨Sort.sort_spec _ mode sub raw, fun l => stable_sort_spec lt trans total l⟩

/-- concatenation of the emitted chunks = the bytes the reader produced: EVERY script of Read
    results, data returned together with an error included -/
theorem reader_concat (script : List Reader.Read) :
    (Reader.runIOReader script).chunks.flatten = Reader.produced script := Reader.runIOReader_concat script

/-- every chunk is a fresh array holding exactly the data of its read: what an observer keeps is
    not changed by later reads into the buffer -/
theorem reader_retained (script : List Reader.Read) :
    (Reader.runIOReader script).chunks = Reader.handedOn script := Reader.runIOReader_chunks script

/-- Complete iff the first error is io.EOF, Error otherwise -/
theorem reader_terminal (script : List Reader.Read) :
    (Reader.runIOReader script).term = Reader.termOf script := Reader.runIOReader_term script

-- non-vacuity of the table theorems: the generated table is not empty and a changed row is rejected
example : RoGen.Plugins.table.length = 72 := by decide
def exRow (body : Txt) : Row :=
  { plugin := txt% "strconv", name := txt% "ParseInt", params := [txt% "int", txt% "int"], lift := .mapErr, setup := [], body := [body] }
-- a constant where the parameter should be; a Map where a MapErr should be
example : [exRow (txt% "return strconv.ParseInt($v, 10, $p1)")] ≠ [exRow (txt% "return strconv.ParseInt($v, $p0, $p1)")] := by decide
example : [{ exRow (txt% "return strconv.ParseInt($v, $p0, $p1)") with lift := .map }] ≠
    [exRow (txt% "return strconv.ParseInt($v, $p0, $p1)")] := by decide
example : (txt% "ab") = 1 * 256 * 256 + 97 * 256 + 98 := by decide

end Ro.C18

#print axioms Ro.C18.plugins_table
#print axioms Ro.C18.plugins_rows_recognised
#print axioms Ro.C18.helpers_agree
#print axioms Ro.C18.helper_diffs_only
#print axioms Ro.C18.sortStableFunc_calls_sliceStable
#print axioms Ro.C18.lift_map
#print axioms Ro.C18.lift_mapErr
#print axioms Ro.C18.lift_filter
#print axioms Ro.C18.lift_roundtrip
#print axioms Ro.C18.base64_roundtrip
#print axioms Ro.C18.atoi_itoa
#print axioms Ro.C18.atoi_itoa_out_of_range
#print axioms Ro.C18.parseBool_formatBool
#print axioms Ro.C18.ellipsis_flavours_agree
#print axioms Ro.C18.ellipsis_input_untouched
#print axioms Ro.C18.ellipsis_result_inside
#print axioms Ro.C18.sort_small_is_stable
#print axioms Ro.C18.sort_sorted_perm
#print axioms Ro.C18.stable_sort_spec
#print axioms Ro.C18.sort_keys_determined
#print axioms Ro.C18.sort_operator
#print axioms Ro.C18.sortStableFunc_stable
#print axioms Ro.C18.reader_concat
#print axioms Ro.C18.reader_retained
#print axioms Ro.C18.reader_terminal

/-
  C05 (first half) — multi-source operators honour every arrival order of their inputs:
  MergeAll∘Just / Merge / MergeWith*, RaceWith / Race / Amb, TakeUntil, SkipUntil, SampleWhen, ThrottleWhen.

  Shape of every theorem: for EVERY tuple of source scripts (any length, any contexts, legal or not) and
  EVERY interleaving `order` (no compatibility side condition: an entry that names an exhausted source
  sends nothing, so all compatible interleavings are among the `order`s quantified over),

      (runMulti opM (sources scripts) sub order).out = Spec.op (… (eventsOf (sources scripts) order))

  where `eventsOf` is the arrival order the interleaving produces (RoModel/Multi/Core.lean), the machines are
  the line-by-line readings of the Go code (RoModel/Multi/OpsA.lean, tied to the real library by the
  differential runs of `kind=multi`), and `Spec.*` (RoModel/Spec/Multi.lean) is the definition's output for
  an arrival order. The proofs (RoProofs/Multi*.lean) go through a stronger statement: for every event
  sequence whatsoever.

  Corollaries: every interleaving keeps each source's own order without loss or duplication
  (`per_source_order`, `merge_per_source_order`); merge forwards every value exactly once, in arrival
  order, until the first error, which ends the output at once, and completes exactly at the last
  completion (`merge_all_values`, `merge_error`, `merge_complete`); once the output has ended every source
  is released (`merge_releases`, `race_releases`, `until_sample_throttle_release`); race releases the
  losers at the winner's first notification (`race_losers_released`); the delivered trace always obeys
  the grammar, also with synchronous sources (`grammar`).

  Deviations of the pinned tree (each: `_impl` theorem = what the code does for every arrival order,
  `_partial` theorem on the explicit sub-domain, witness, known finding replayed on the real code):
   * TakeUntil / SkipUntil do not listen to the signal's error (`OnNextWithContext` observer,
     operator_filter.go:324-331, 534-543): FULL statement
         (runMulti takeUntilM (Sources.hot scripts) sub order).out = Spec.takeUntil true (heard2 (eventsOf …))
     fails — `takeUntil_signal_error_witness`, `skipUntil_signal_error_witness`; it holds whenever no
     error of the signal is heard (`takeUntil_partial`, `skipUntil_partial`).

  Repaired since the first version of this file (the model follows the code):
   * RaceWith used to lose the subscription of a source that wins synchronously inside `Subscribe`
     (fix 5ca7c2d): `race_cut_releases` / `race_done_releases` now hold for ANY mix of hot and synchronous sources.
   * TakeUntil used to raise its flag before completing the destination (fix 3e5361a); with the repaired order
     the micro-step model (RoModel/Multi/Micro.lean) satisfies the concurrent clause: `takeUntil_concurrent` — every
     schedule of atomic actions delivers the definition's output for SOME compatible arrival order.
-/
import RoProofs.MultiUntil
import RoProofs.MultiSample
import RoProofs.MultiRace
import RoProofs.MultiMerge
import RoProofs.MultiOrder
import RoProofs.MultiMergeAll
import RoProofs.MultiMicro
import RoModel.Multi.Micro
namespace Ro.C05a
open Ro Ro.Multi

variable {α : Type}

theorem hot_sync (scripts : List (List (Notif α))) (k : Nat) : (Sources.hot scripts).sync k = false := by
  simp [Sources.hot, Sources.ofLists]

/-- the sources of `Merge(s₁…sₙ)` / `MergeWith*` / `MergeAll()(Just(s₁…sₙ))` subscribed with context `sub`:
    source 0 is `Just(…)` (synchronous), sources 1…n are the merged observables (hot) -/
def mergeSources (sub : Ctx) (scripts : List (List (Notif Int))) : Sources Int :=
  Sources.ofLists (justScript sub scripts.length :: scripts) [true]

theorem mergeSources_cfg (sub : Ctx) (scripts : List (List (Notif Int))) :
    MergeCfg scripts.length sub (mergeSources sub scripts) where
  outerSync := by simp [mergeSources, Sources.ofLists]
  outer := by simp [mergeSources, Sources.ofLists]
  hot := by
    intro k hk
    obtain ⟨j, rfl⟩ : ∃ j, k = j + 1 := ⟨k - 1, by omega⟩
    simp [mergeSources, Sources.ofLists]

/-! ## every interleaving keeps each source's own order -/

theorem per_source_order (cfg : Sources α) (k : Nat) (order : List Nat) :
    Spec.ofSource k (eventsOf cfg order) <+: cfg.script k := eventsOf_ofSource_prefix cfg k order

/-! ## Merge -/

theorem merge (scripts : List (List (Notif Int))) (sub : Ctx) (order : List Nat) :
    (runMulti mergeM (mergeSources sub scripts) sub order).out =
      Spec.merge sub scripts.length
        (Spec.gateEvents (Spec.restrict (inner scripts.length) (eventsOf (mergeSources sub scripts) order))) :=
  (merge_spec scripts.length sub _ (mergeSources_cfg sub scripts) _).1

/-- once the merged output has ended (error of any source, or last completion) every source is released -/
theorem merge_releases (scripts : List (List (Notif Int))) (sub : Ctx) (order : List Nat)
    (h : (runMulti mergeM (mergeSources sub scripts) sub order).downOpen = false) (k : Nat)
    (hk : 1 ≤ k ∧ k ≤ scripts.length) :
    (runMulti mergeM (mergeSources sub scripts) sub order).sopen k = false :=
  (merge_spec scripts.length sub _ (mergeSources_cfg sub scripts) _).2 h k (by simp [inner, hk])

/-- what source `k` contributes to the arrival order the merge hears is a prefix of its script -/
theorem merge_per_source_order (scripts : List (List (Notif Int))) (sub : Ctx) (order : List Nat) (k : Nat)
    (hk : 1 ≤ k ∧ k ≤ scripts.length) :
    Spec.ofSource k (Spec.gateEvents (Spec.restrict (inner scripts.length) (eventsOf (mergeSources sub scripts) order)))
      <+: (mergeSources sub scripts).script k :=
  ofSource_gateEvents_prefix _ k order _ (by simp [inner, hk])

theorem merge_all_values (sub : Ctx) (g : List (MEvent α)) (live : Nat) (hne : noError g = true) (hc : completes g < live) :
    Spec.merge sub live g = valNotifs g := Ro.Multi.merge_all_values sub g live hne hc

theorem merge_error (sub : Ctx) (p q : List (MEvent α)) (live k : Nat) (c : Ctx) (e : Err)
    (hne : noError p = true) (hc : completes p < live) :
    Spec.merge sub live (p ++ (k, .error c e) :: q) = valNotifs p ++ [.error c e] :=
  Ro.Multi.merge_error sub p q live k c e hne hc

theorem merge_complete (sub : Ctx) (p q : List (MEvent α)) (live k : Nat) (c : Ctx)
    (hne : noError p = true) (hc : completes p + 1 = live) :
    Spec.merge sub live (p ++ (k, .complete c) :: q) = valNotifs p ++ [.complete sub] :=
  Ro.Multi.merge_complete sub p q live k c hne hc

/-! ## MergeAll / MergeMap* with a hot outer source

Source 0 is the outer observable; its `i`-th value `v` (context `c`) stands for the inner source
`(proj c v i).2`, subscribed with context `(proj c v i).1` (for MergeMapIWithContext `proj` is the user's
projection; for MergeAll it is `fun c v _ => (c, v)`). Inner sources are subscribed when the value that
names them arrives, anywhere in the arrival order; what a hot inner source sent before is lost.
Hypothesis: the outer never names a source twice (`freshNames`; a probe subscribed twice is outside
the model). -/

theorem mergeAll (proj : Ctx → α → Nat → Ctx × Nat) (scripts : List (List (Notif α))) (sub : Ctx) (order : List Nat)
    (hf : freshNames proj (fun k => k == 0) (fun _ => false) 0 (eventsOf (Sources.hot scripts) order) = true) :
    (runMulti (mergeAllM proj) (Sources.hot scripts) sub order).out =
      Spec.mergeAll 1 Ctx.nil (Spec.heard proj (fun k => k == 0) (fun _ => false) 0 (eventsOf (Sources.hot scripts) order)) :=
  mergeAll_spec proj _ (hot_sync scripts) sub _ hf

/-! ## Race -/

theorem race (scripts : List (List (Notif α))) (sub : Ctx) (order : List Nat) :
    (runMulti (raceM scripts.length) (Sources.hot scripts) sub order).out =
      Spec.race (Spec.restrict (below scripts.length) (eventsOf (Sources.hot scripts) order)) :=
  race_spec _ _ (hot_sync scripts) sub _

/-- the winner's terminal (error or completion) releases every source -/
theorem race_releases (scripts : List (List (Notif α))) (sub : Ctx) (order : List Nat)
    (h : (runMulti (raceM scripts.length) (Sources.hot scripts) sub order).downOpen = false) (j : Nat) (hj : j < scripts.length) :
    (runMulti (raceM scripts.length) (Sources.hot scripts) sub order).sopen j = false :=
  (race_end _ _ (hot_sync scripts) sub _).closed h j hj

/-- as soon as one source has notified, every other source is released -/
theorem race_losers_released (scripts : List (List (Notif α))) (sub : Ctx) (order : List Nat) (w : Nat) (x : Notif α)
    (rest : List (MEvent α))
    (h : Spec.restrict (below scripts.length) (eventsOf (Sources.hot scripts) order) = (w, x) :: rest)
    (j : Nat) (hj : j < scripts.length) (hjw : j ≠ w) :
    (runMulti (raceM scripts.length) (Sources.hot scripts) sub order).sopen j = false :=
  (race_end _ _ (hot_sync scripts) sub _).losers w x rest h j hj hjw

/-- an external Unsubscribe after any prefix of any interleaving releases every subscribed source, and it
    stays released — ANY mix of hot and synchronous sources (a source that wins inside its own `Subscribe`
    included, since fix 5ca7c2d) -/
theorem race_cut_releases (n : Nat) (cfg : Sources α) (sub : Ctx) (order : List Nat) (c : Nat) (k : Nat) :
    (runMultiCut (raceM n) cfg sub order c).live k = false := by
  unfold MSt.live
  by_cases hk : (runMultiCut (raceM n) cfg sub order c).subs k = 0
  · simp [hk]
  · have := race_cut_releases_any n cfg sub (eventsOf cfg (order.take c))
      (eventsFrom cfg (posAfter cfg (fun _ => 0) (order.take c)) (order.drop c)) k hk
    unfold runMultiCut runMulti at hk ⊢
    simp [this]

/-- the output has ended (the winner's error or completion) ⇒ every subscribed source is released — ANY mix
    of hot and synchronous sources -/
theorem race_done_releases (n : Nat) (cfg : Sources α) (sub : Ctx) (order : List Nat) (k : Nat)
    (hd : (runMulti (raceM n) cfg sub order).downOpen = false) :
    (runMulti (raceM n) cfg sub order).live k = false := by
  unfold MSt.live
  by_cases hk : (runMulti (raceM n) cfg sub order).subs k = 0
  · simp [hk]
  · have := Ro.Multi.race_done_releases n cfg sub (eventsOf cfg order) k hd hk
    unfold runMulti at hk ⊢
    simp [this]

/-! ## TakeUntil / SkipUntil -/

/-- what the pinned TakeUntil delivers, for every interleaving: the definition minus the signal's error -/
theorem takeUntil_impl (scripts : List (List (Notif α))) (sub : Ctx) (order : List Nat) :
    (runMulti takeUntilM (Sources.hot scripts) sub order).out =
      Spec.takeUntil false (heard2 (eventsOf (Sources.hot scripts) order)) :=
  Ro.Multi.takeUntil_impl _ (hot_sync scripts) sub _

/-- PARTIAL: whenever no error of the signal is heard, TakeUntil delivers the definition's output -/
theorem takeUntil_partial (scripts : List (List (Notif α))) (sub : Ctx) (order : List Nat)
    (h : noSignalError (heard2 (eventsOf (Sources.hot scripts) order)) = true) :
    (runMulti takeUntilM (Sources.hot scripts) sub order).out =
      Spec.takeUntil true (heard2 (eventsOf (Sources.hot scripts) order)) := by
  rw [takeUntil_impl, takeUntil_sigErr_irrelevant _ h]

def wc (m : Nat) : Ctx := { marks := [7, m] }
def wScriptsTake : List (List (Notif Int)) := [[.next (wc 1) 11, .next (wc 2) 12, .complete (wc 3)], [.error (wc 1) (.user 2)]]

/-- WITNESS: the signal errors after the first value; the definition ends with that error, the pinned
    code goes on to the source's completion -/
theorem takeUntil_signal_error_witness :
    (runMulti takeUntilM (Sources.hot wScriptsTake) { marks := [7] } [0, 1, 0, 0]).out
        = [.next (wc 1) 11, .next (wc 2) 12, .complete (wc 3)] ∧
    Spec.takeUntil true (heard2 (eventsOf (Sources.hot wScriptsTake) [0, 1, 0, 0]))
        = [.next (wc 1) 11, .error (wc 1) (.user 2)] := by
  decide

theorem skipUntil_impl (scripts : List (List (Notif α))) (sub : Ctx) (order : List Nat) :
    (runMulti skipUntilM (Sources.hot scripts) sub order).out =
      Spec.skipUntil false false (heard2 (eventsOf (Sources.hot scripts) order)) :=
  Ro.Multi.skipUntil_impl _ (hot_sync scripts) sub _

theorem skipUntil_partial (scripts : List (List (Notif α))) (sub : Ctx) (order : List Nat)
    (h : noSignalError (heard2 (eventsOf (Sources.hot scripts) order)) = true) :
    (runMulti skipUntilM (Sources.hot scripts) sub order).out =
      Spec.skipUntil true false (heard2 (eventsOf (Sources.hot scripts) order)) := by
  rw [skipUntil_impl, skipUntil_sigErr_irrelevant _ _ h]

def wScriptsSkip : List (List (Notif Int)) := [[.next (wc 1) 11, .complete (wc 2)], [.error (wc 1) (.user 2)]]

theorem skipUntil_signal_error_witness :
    (runMulti skipUntilM (Sources.hot wScriptsSkip) { marks := [7] } [0, 1, 0]).out = [.complete (wc 2)] ∧
    Spec.skipUntil true false (heard2 (eventsOf (Sources.hot wScriptsSkip) [0, 1, 0])) = [.error (wc 1) (.user 2)] := by
  decide

/-! ## TakeUntil under true concurrency

DESIGN.md 5/C05 asks, for sources driven by different goroutines, that the output be the definition's
output for SOME arrival order compatible with each source's own order. TakeUntil is the one operator of
this half whose callback consists of two atomic actions (complete the destination, raise the flag);
`RoModel/Multi/Micro.lean` models it at that granularity. For every pair of scripts and every schedule there is an
arrival order `evs` (each source's notifications in their own order, up to its terminal) whose output —
by the definition minus the signal's error, and by the logical machine — is the schedule's output. -/

theorem takeUntil_concurrent (source signal : List (Notif α)) (sched : List Nat) (sub : Ctx) :
    ∃ evs : List (MEvent α),
      (∀ e ∈ evs, e.1 < 2) ∧
      Spec.ofSource 0 evs <+: gate source ∧ Spec.ofSource 1 evs <+: gate signal ∧
      Micro.takeUntilMicro source signal sched = Spec.takeUntil false evs ∧
      Micro.takeUntilMicro source signal sched =
        (feedAll takeUntilM (Sources.hot [source, signal]) (bootSt takeUntilM (Sources.hot [source, signal]) sub) evs).out :=
  Micro.takeUntilMicro_arrival source signal sched _ (hot_sync _) sub

def wSrc : List (Notif Int) := [.next (wc 1) 11, .next (wc 2) 12, .error (wc 3) (.user 1)]
def wSig : List (Notif Int) := [.next (wc 1) 21]
-- the schedule that used to deliver `N11, E1` (flag raised, value skipped, error delivered, completion refused)
example : Micro.takeUntilMicro wSrc wSig [0, 1, 0, 0, 1] = [.next (wc 1) 11, .complete (wc 1)] := by decide
example : Micro.takeUntilMicro wSrc wSig [0, 0, 0, 1, 1] = [.next (wc 1) 11, .next (wc 2) 12, .error (wc 3) (.user 1)] := by decide

/-! ## SampleWhen / ThrottleWhen -/

theorem sampleWhen (scripts : List (List (Notif α))) (sub : Ctx) (order : List Nat) :
    (runMulti sampleWhenM (Sources.hot scripts) sub order).out =
      Spec.sampleWhen none (heard2 (eventsOf (Sources.hot scripts) order)) :=
  sampleWhen_spec _ (hot_sync scripts) sub _

theorem throttleWhen (scripts : List (List (Notif α))) (sub : Ctx) (order : List Nat) :
    (runMulti throttleWhenM (Sources.hot scripts) sub order).out =
      Spec.throttleWhen false (heard2 (eventsOf (Sources.hot scripts) order)) :=
  throttleWhen_spec _ (hot_sync scripts) sub _

/-- TakeUntil, SkipUntil, SampleWhen, ThrottleWhen: once the output has ended (any source's error, the
    source's completion, the signal's value, the tick's completion) both sources are released -/
theorem until_sample_throttle_release (scripts : List (List (Notif α))) (sub : Ctx) (order : List Nat) (k : Nat) (hk : k < 2) :
    ((runMulti takeUntilM (Sources.hot scripts) sub order).downOpen = false →
      (runMulti takeUntilM (Sources.hot scripts) sub order).sopen k = false) ∧
    ((runMulti skipUntilM (Sources.hot scripts) sub order).downOpen = false →
      (runMulti skipUntilM (Sources.hot scripts) sub order).sopen k = false) ∧
    ((runMulti sampleWhenM (Sources.hot scripts) sub order).downOpen = false →
      (runMulti sampleWhenM (Sources.hot scripts) sub order).sopen k = false) ∧
    ((runMulti throttleWhenM (Sources.hot scripts) sub order).downOpen = false →
      (runMulti throttleWhenM (Sources.hot scripts) sub order).sopen k = false) := by
  have hk2 : two k = true := by simp [two, hk]
  have h1 := takeUntil_boot (Sources.hot scripts) (hot_sync scripts) sub
  have h2 := skipUntil_boot (Sources.hot scripts) (hot_sync scripts) sub
  have h3 := sampleWhen_boot (Sources.hot scripts) (hot_sync scripts) sub
  have h4 := throttleWhen_boot (Sources.hot scripts) (hot_sync scripts) sub
  exact ⟨fun h => (emitOnly2_run (takeUntil_emitOnly _) _ h1.1 h1.2.1 _).2 h k hk2,
    fun h => (emitOnly2_run (skipUntil_emitOnly _) _ h2.1 h2.2.1 _).2 h k hk2,
    fun h => (emitOnly2_run (sampleWhen_emitOnly _) _ h3.1 h3.2.1 _).2 h k hk2,
    fun h => (emitOnly2_run (throttleWhen_emitOnly _) _ h4.1 h4.2.1 _).2 h k hk2⟩

/-! ## grammar, for every machine and any mix of hot and synchronous sources -/

theorem grammar {σ β : Type} (m : MMachine σ α β) (cfg : Sources α) (sub : Ctx) (order : List Nat) :
    Grammar (runMulti m cfg sub order).out := runMulti_grammar m cfg sub order

/-! ## non-vacuity: both sides evaluated on concrete, non-trivial inputs -/

def s3 : List (List (Notif Int)) :=
  [[.next (wc 1) 11, .complete (wc 2)], [.next (wc 1) 21, .next (wc 2) 22, .complete (wc 3)], [.next (wc 1) 31, .error (wc 2) (.user 3), .next (wc 3) 39]]

example : (runMulti mergeM (mergeSources { marks := [7] } s3) { marks := [7] } [2, 1, 3, 1, 2, 3, 2, 3]).out =
    [.next (wc 1) 21, .next (wc 1) 11, .next (wc 1) 31, .next (wc 2) 22, .error (wc 2) (.user 3)] := by decide
example : (runMulti mergeM (mergeSources { marks := [7] } (s3.take 2)) { marks := [7] } [2, 1, 1, 2, 2]).out =
    [.next (wc 1) 21, .next (wc 1) 11, .next (wc 2) 22, .complete { marks := [7] }] := by decide
def mmProj (c : Ctx) (v : Int) (i : Nat) : Ctx × Nat := (c.tag (40 + i), v.toNat)
def sMM : List (List (Notif Int)) :=
  [[.next (wc 1) 2, .next (wc 2) 1, .complete (wc 3)], [.next (wc 1) 21, .complete (wc 2)], [.next (wc 1) 31, .complete (wc 2)]]
example : freshNames mmProj (fun k => k == 0) (fun _ => false) 0 (eventsOf (Sources.hot sMM) [0, 2, 0, 1, 0, 1, 2]) = true := by decide
example : (runMulti (mergeAllM mmProj) (Sources.hot sMM) { marks := [7] } [0, 2, 0, 1, 0, 1, 2]).out =
    [.next (wc 1) 31, .next (wc 1) 21, .complete (wc 3)] := by decide
example : Spec.mergeAll 1 Ctx.nil (Spec.heard mmProj (fun k => k == 0) (fun _ => false) 0 (eventsOf (Sources.hot sMM) [0, 2, 0, 1, 0, 1, 2])) =
    [.next (wc 1) 31, .next (wc 1) 21, .complete (wc 3)] := by decide
example : (runMulti (raceM 3) (Sources.hot s3) { marks := [7] } [1, 0, 2, 1, 1, 0]).out =
    [.next (wc 1) 21, .next (wc 2) 22, .complete (wc 3)] := by decide
example : Spec.race (Spec.restrict (below 3) (eventsOf (Sources.hot s3) [1, 0, 2, 1, 1, 0])) =
    [.next (wc 1) 21, .next (wc 2) 22, .complete (wc 3)] := by decide
example : (runMulti sampleWhenM (Sources.hot (s3.take 2)) { marks := [7] } [1, 0, 1, 1, 0]).out =
    [.next (wc 1) 11, .complete (wc 3)] := by decide
example : (runMulti throttleWhenM (Sources.hot [s3[1]!, s3[0]!]) { marks := [7] } [0, 1, 0, 0, 1]).out =
    [.next (wc 2) 22, .complete (wc 3)] := by decide
example : (runMulti skipUntilM (Sources.hot (s3.take 2)) { marks := [7] } [0, 1, 0]).out = [.complete (wc 2)] := by decide
example : (runMulti takeUntilM (Sources.hot (s3.take 2)) { marks := [7] } [0, 1, 0]).out =
    [.next (wc 1) 11, .complete (wc 1)] := by decide

end Ro.C05a

#print axioms Ro.C05a.per_source_order
#print axioms Ro.C05a.merge
#print axioms Ro.C05a.merge_releases
#print axioms Ro.C05a.merge_per_source_order
#print axioms Ro.C05a.merge_all_values
#print axioms Ro.C05a.merge_error
#print axioms Ro.C05a.merge_complete
#print axioms Ro.C05a.mergeAll
#print axioms Ro.C05a.race
#print axioms Ro.C05a.race_releases
#print axioms Ro.C05a.race_losers_released
#print axioms Ro.C05a.race_cut_releases
#print axioms Ro.C05a.race_done_releases
#print axioms Ro.C05a.takeUntil_impl
#print axioms Ro.C05a.takeUntil_partial
#print axioms Ro.C05a.takeUntil_signal_error_witness
#print axioms Ro.C05a.takeUntil_concurrent
#print axioms Ro.C05a.skipUntil_impl
#print axioms Ro.C05a.skipUntil_partial
#print axioms Ro.C05a.skipUntil_signal_error_witness
#print axioms Ro.C05a.sampleWhen
#print axioms Ro.C05a.throttleWhen
#print axioms Ro.C05a.until_sample_throttle_release
#print axioms Ro.C05a.grammar

/-
  C09 for the operators of RoModel/Ops/More.lean (index file; the certificates and theorems are in
  RoProofs/Ops/MoreCtx.lean). Every machine except `contextResetM` holds a `CtxSafe` certificate, hence
  `CtxSafe.run` applies: only contexts derived from the subscription context are delivered, never nil.
   * `ContextWithValue`: additionally every delivered notification carries the added marker
     (`ctxWithValue_marks`), and the context handed to the source is derived (`ctxWithValueUp_derived`).
   * `ContextMap(I)`: under the callback contract "returns a context derived from the one it is given";
     `ContextWithTimeout` / `ContextWithDeadline` unconditionally (child context: same markers).
   * `ContextReset(newCtx)`: **by definition not derived** — every delivered context IS `newCtx`
     (`contextReset_ctx_eq`), never nil (`contextReset_never_nil`), derived from the subscription context
     exactly when `newCtx` happens to be (`contextReset_allFrom_iff`); witness of the loss of the
     subscription marker: `contextReset_not_derived_witness`, `contextReset_not_allFrom`,
     `contextReset_lost_marker`. This is the documented meaning of the operator ("emits the same items …
     but with a new context"), not a finding: the operator is excluded from the pass-through oracle by name.

  Creation operators (RoProofs/Ops/CreateCtx.lean): every notification a creation operator offers carries
  exactly the subscription context (`<gen>_subCtx`, preserved by Defer and Iif), so what is delivered is
  derived from it and never nil (`Gen.delivered_allFrom`), also with a certified machine downstream
  (`Gen.pipe_allFrom`).
-/
import RoProofs.Ops.MoreCtx
import RoProofs.Ops.CreateCtx
namespace Ro.C09m

theorem ctxWithValue_every_notification {α : Type} (m : Nat) (mode : SrcMode) (sub : Ctx) (raw : List (Notif α)) :
    ∀ n ∈ (runOp (ctxWithValueM (α := α) m) mode sub raw).out, m ∈ n.ctx.marks := ctxWithValue_marks m mode sub raw

end Ro.C09m

#print axioms Ro.C09m.ctxWithValue_every_notification
#print axioms Ro.ctxWithValue_ctx
#print axioms Ro.ctxWithValue_marks
#print axioms Ro.ctxWithValueUp_derived
#print axioms Ro.contextMap_ctx
#print axioms Ro.contextWithTimeout_ctx
#print axioms Ro.contextWithDeadline_ctx
#print axioms Ro.contextReset_ctx_of_derived
#print axioms Ro.contextReset_ctx_eq
#print axioms Ro.contextReset_never_nil
#print axioms Ro.contextReset_allFrom_iff
#print axioms Ro.contextReset_not_derived_witness
#print axioms Ro.contextReset_not_allFrom
#print axioms Ro.contextReset_lost_marker
#print axioms Ro.cast_ctx
#print axioms Ro.tap_ctx
#print axioms Ro.timed_ctx
#print axioms Ro.average_ctx
#print axioms Ro.ofG_subCtx
#print axioms Ro.fromSliceG_subCtx
#print axioms Ro.emptyG_subCtx
#print axioms Ro.throwG_subCtx
#print axioms Ro.rangeG_subCtx
#print axioms Ro.repeatG_subCtx
#print axioms Ro.startG_subCtx
#print axioms Ro.deferG_subCtx_ok
#print axioms Ro.deferG_subCtx_panic
#print axioms Ro.iifG_subCtx
#print axioms Ro.Gen.delivered_ctx
#print axioms Ro.Gen.delivered_allFrom
#print axioms Ro.Gen.delivered_notNil
#print axioms Ro.Gen.pipe_allFrom
#print axioms Ro.bgGen_not_subCtx

/-
  C10 (generated subject methods) — the tie between the subject model and subject_*.go, tightened
  by a translator.

  `go/extract` (subjgen.go) re-translates, on every run, the bodies of SubscribeWithContext /
  NextWithContext / ErrorWithContext / CompleteWithContext, of the broadcast helpers, of
  unsubscribeAll, of the constructor and of the five state queries of the five subject
  implementations into Lean definitions over `Ro.Subj.State` (lean/RoGen/SubjGen.lean, namespace
  `RoGen.Subj`; the sequential reading: the mutex calls are erased — where the lock is held is the
  regenerated table RoGen.SubjectLocks, C10.subjects_wellLocked).

  This file proves, for EVERY state and EVERY argument, that each clause of the hand-written step
  functions of RoModel/Subjects.lean — the functions the C10 theorems (sequential definition,
  linearizability, grammar) are about — is the regenerated definition:

      publishStep s (.next c v)      = publish_next s c v
      publishStep s (.subscribe i c) = if (s.sub i).used then s else publish_subscribe s i c
      publishStep s (.unsubscribe i) = if (s.sub i).used then subUnsubscribe publish_td s i else s
      …

  (`Subscribe i` on an identity already used / `Unsubscribe i` without a subscription are the
  client conventions of RoModel/Subjects.lean, not subject code.)  Where the Go state encoding is
  coarser than the model's (`last` = exactly one stored value, `hasValue`/`value` = at most one,
  unicast's single `observer` field), the equality holds under the representation invariant
  (`OneValue`, `AtMostOneValue`, `AtMostOneObserver`), which is proved to hold in every reachable
  state (`…_reachable`), so the equalities hold along every run (`behavior_run_gen`, …).

  A change to the Go code of a subject method changes the regenerated text and breaks the equality
  below at `lake build`, for all states and arguments, not only the sampled sequences; the C10
  correspondence then supplies a concrete operation sequence.
-/
import RoModel.Subjects
import RoProofs.Subjects
import RoProofs.SubjectsUnicast
import RoGen.SubjGen
namespace Ro.C10gen
open Ro Ro.Subj RoGen.Subj
variable {α : Type} [Inhabited α]

/-! ### helpers shared by the four multicast subjects -/

theorem foldl_filter_observers (l : List Nat) (s : State α) :
    (l.foldl (fun s key => { s with observers := s.observers.filter (· != key) }) s)
      = { s with observers := s.observers.filter (fun j => !(l.contains j)) } := by
  induction l generalizing s with
  | nil =>
    have : List.filter (fun j => !([] : List Nat).contains j) s.observers = s.observers :=
      List.filter_eq_self.mpr (by intro a _; rfl)
    simp only [List.foldl_nil, this]
  | cons k l ih =>
    simp only [List.foldl_cons]
    rw [ih]
    simp only [List.filter_filter]
    congr 1
    apply List.filter_congr
    intro j _
    by_cases h : j = k <;> simp [h]

/-- `unsubscribeAll`: `Range` over the keys deleting each one leaves no key -/
theorem unsubscribeAll_gen (s : State α) :
    (s.observers.foldl (fun s key => { s with observers := s.observers.filter (· != key) }) s) = unsubscribeAll s := by
  rw [foldl_filter_observers]
  unfold unsubscribeAll
  congr 1
  apply List.filter_eq_nil_iff.mpr
  intro j hj
  simp [hj]

/-- closes the goals left after splitting both sides on the status / the observer / the buffer -/
macro "subj_close" : tactic =>
  `(tactic| first | rfl | (simp_all [State.modSub, fresh, register, replayTo, publish_td, behavior_td, replay_td, async_td, unicast_td]; done))

/-! ### publish -/

theorem publish_td_gen : publish_td = TD.delete := rfl
theorem publish_broadcastNext_gen (s : State α) (c : Ctx) (v : α) : publish_broadcastNext s c v = broadcastNext s c v := rfl
theorem publish_broadcastError_gen (s : State α) (c : Ctx) (e : Err) :
    publish_broadcastError s c e = broadcastTerminal s (.error c e) := rfl
theorem publish_broadcastComplete_gen (s : State α) (c : Ctx) :
    publish_broadcastComplete s c = broadcastTerminal s (.complete c) := rfl
theorem publish_unsubscribeAll_gen (s : State α) : publish_unsubscribeAll s = unsubscribeAll s := unsubscribeAll_gen s

theorem publish_subscribe_gen (s : State α) (i : Nat) (c : Ctx) :
    publishStep s (.subscribe i c) = if (s.sub i).used then s else publish_subscribe s i c := by
  simp only [publishStep, publish_subscribe]
  have hst : (fresh s i).status = s.status := rfl
  split
  · rfl
  · split <;> split <;> subj_close

theorem publish_next_gen (s : State α) (c : Ctx) (v : α) : publishStep s (.next c v) = publish_next s c v := by
  simp only [publishStep, publish_next, publish_broadcastNext_gen]
  split <;> split <;> subj_close

theorem publish_error_gen (s : State α) (c : Ctx) (e : Err) : publishStep s (.error c e) = publish_error s c e := by
  simp only [publishStep, publish_error, publish_broadcastError_gen, publish_unsubscribeAll_gen]
  split <;> split <;> subj_close

theorem publish_complete_gen (s : State α) (c : Ctx) : publishStep s (.complete c) = publish_complete s c := by
  simp only [publishStep, publish_complete, publish_broadcastComplete_gen, publish_unsubscribeAll_gen]
  split <;> split <;> subj_close

theorem publish_unsubscribe_gen (s : State α) (i : Nat) :
    publishStep s (.unsubscribe i) = if (s.sub i).used then subUnsubscribe publish_td s i else s := rfl

theorem publish_init_gen : (Kind.publish : Kind α).init = publish_init := rfl

theorem publish_queries_gen (s : State α) :
    s.countObservers = publish_countObservers s ∧ s.hasObserver = publish_hasObserver s ∧ s.isClosed = publish_isClosed s
      ∧ s.hasThrown = publish_hasThrown s ∧ s.isCompleted = publish_isCompleted s := by
  refine ⟨rfl, ?_, rfl, rfl, rfl⟩
  unfold State.hasObserver publish_hasObserver
  cases s.observers <;> rfl

/-! ### behavior: `last` is `values = [last]` -/

/-- the representation invariant of behavior's `last` field -/
def OneValue (s : State α) : Prop := ∃ p, s.values = [p]

theorem behavior_td_gen : behavior_td = TD.delete := rfl
theorem behavior_broadcastNext_gen (s : State α) (c : Ctx) (v : α) : behavior_broadcastNext s c v = broadcastNext s c v := rfl
theorem behavior_broadcastError_gen (s : State α) (c : Ctx) (e : Err) :
    behavior_broadcastError s c e = broadcastTerminal s (.error c e) := rfl
theorem behavior_broadcastComplete_gen (s : State α) (c : Ctx) :
    behavior_broadcastComplete s c = broadcastTerminal s (.complete c) := rfl
theorem behavior_unsubscribeAll_gen (s : State α) : behavior_unsubscribeAll s = unsubscribeAll s := unsubscribeAll_gen s

theorem behavior_subscribe_gen (s : State α) (h : OneValue s) (i : Nat) (c : Ctx) :
    behaviorStep s (.subscribe i c) = if (s.sub i).used then s else behavior_subscribe s i c := by
  obtain ⟨p, hp⟩ := h
  simp only [behaviorStep, behavior_subscribe]
  have hst : (fresh s i).status = s.status := rfl
  have hv : (fresh s i).values = [p] := hp
  split
  · rfl
  · split <;> split <;> subj_close

theorem behavior_next_gen (s : State α) (c : Ctx) (v : α) : behaviorStep s (.next c v) = behavior_next s c v := by
  simp only [behaviorStep, behavior_next, behavior_broadcastNext_gen]
  split <;> split <;> subj_close

theorem behavior_error_gen (s : State α) (c : Ctx) (e : Err) : behaviorStep s (.error c e) = behavior_error s c e := by
  simp only [behaviorStep, behavior_error, behavior_broadcastError_gen, behavior_unsubscribeAll_gen]
  split <;> split <;> subj_close

theorem behavior_complete_gen (s : State α) (c : Ctx) : behaviorStep s (.complete c) = behavior_complete s c := by
  simp only [behaviorStep, behavior_complete, behavior_broadcastComplete_gen, behavior_unsubscribeAll_gen]
  split <;> split <;> subj_close

theorem behavior_unsubscribe_gen (s : State α) (i : Nat) :
    behaviorStep s (.unsubscribe i) = if (s.sub i).used then subUnsubscribe behavior_td s i else s := rfl

theorem behavior_init_gen (v : α) : (Kind.behavior v).init = behavior_init v := rfl

theorem behavior_queries_gen (s : State α) :
    s.countObservers = behavior_countObservers s ∧ s.hasObserver = behavior_hasObserver s ∧ s.isClosed = behavior_isClosed s
      ∧ s.hasThrown = behavior_hasThrown s ∧ s.isCompleted = behavior_isCompleted s := by
  refine ⟨rfl, ?_, rfl, rfl, rfl⟩
  unfold State.hasObserver behavior_hasObserver
  cases s.observers <;> rfl

/-! ### replay -/

theorem replay_td_gen : replay_td = TD.delete := rfl
theorem replay_broadcastNext_gen (s : State α) (c : Ctx) (v : α) : replay_broadcastNext s c v = broadcastNext s c v := rfl
theorem replay_broadcastError_gen (s : State α) (c : Ctx) (e : Err) :
    replay_broadcastError s c e = broadcastTerminal s (.error c e) := rfl
theorem replay_broadcastComplete_gen (s : State α) (c : Ctx) :
    replay_broadcastComplete s c = broadcastTerminal s (.complete c) := rfl
theorem replay_unsubscribeAll_gen (s : State α) : replay_unsubscribeAll s = unsubscribeAll s := unsubscribeAll_gen s

/-- the regenerated append-then-evict statements (subject_replay.go / subject_unicast.go NextWithContext) are `push` -/
theorem push_gen (cap : Option Nat) (s : State α) (c : Ctx) (v : α) :
    (match cap with
     | some n =>
       if (s.values ++ [(c, v)]).length > n then
         { status := s.status, values := (s.values ++ [(c, v)]).drop ((s.values ++ [(c, v)]).length - n), observers := s.observers,
           sub := s.sub, drops := s.drops ++ [.next c ((s.values ++ [(c, v)]).getD 0 (Ctx.nil, default)).2] }
       else { s with values := s.values ++ [(c, v)] }
     | none => { s with values := s.values ++ [(c, v)] }) = push cap s c v := by
  unfold push
  cases cap with
  | none => rfl
  | some n =>
    simp only
    split
    · cases hv : s.values <;> simp [State.drop]
    · rfl

theorem foldl_subNext_status (i : Nat) (vs : List (Ctx × α)) (t : State α) :
    (vs.foldl (fun s p => subNext s i p.1 p.2) t).status = t.status := by
  induction vs generalizing t with
  | nil => rfl
  | cons p vs ih =>
    rw [List.foldl_cons, ih]
    unfold subNext
    split <;> rfl

theorem replay_subscribe_gen (cap : Option Nat) (s : State α) (i : Nat) (c : Ctx) :
    replayStep cap s (.subscribe i c) = if (s.sub i).used then s else replay_subscribe cap s i c := by
  simp only [replayStep, replay_subscribe]
  have hst : (List.foldl (fun s v => subNext s i v.1 v.2) (fresh s i) (fresh s i).values).status = s.status :=
    foldl_subNext_status i _ _
  have hv : (fresh s i).values = s.values := rfl
  split
  · rfl
  · split <;> split <;> subj_close

theorem replay_next_gen (cap : Option Nat) (s : State α) (c : Ctx) (v : α) :
    replayStep cap s (.next c v) = replay_next cap s c v := by
  simp only [replayStep, replay_next, replay_broadcastNext_gen]
  split <;> split
  · rw [← push_gen]
    cases cap <;> simp [State.drop]
  all_goals subj_close

theorem replay_error_gen (cap : Option Nat) (s : State α) (c : Ctx) (e : Err) :
    replayStep cap s (.error c e) = replay_error cap s c e := by
  simp only [replayStep, replay_error, replay_broadcastError_gen, replay_unsubscribeAll_gen]
  split <;> split <;> subj_close

theorem replay_complete_gen (cap : Option Nat) (s : State α) (c : Ctx) :
    replayStep cap s (.complete c) = replay_complete cap s c := by
  simp only [replayStep, replay_complete, replay_broadcastComplete_gen, replay_unsubscribeAll_gen]
  split <;> split <;> subj_close

theorem replay_unsubscribe_gen (cap : Option Nat) (s : State α) (i : Nat) :
    replayStep cap s (.unsubscribe i) = if (s.sub i).used then subUnsubscribe replay_td s i else s := rfl

theorem replay_init_gen (cap : Option Nat) : (Kind.replay cap : Kind α).init = replay_init := rfl

theorem replay_queries_gen (s : State α) :
    s.countObservers = replay_countObservers s ∧ s.hasObserver = replay_hasObserver s ∧ s.isClosed = replay_isClosed s
      ∧ s.hasThrown = replay_hasThrown s ∧ s.isCompleted = replay_isCompleted s := by
  refine ⟨rfl, ?_, rfl, rfl, rfl⟩
  unfold State.hasObserver replay_hasObserver
  cases s.observers <;> rfl

/-! ### async: `hasValue` / `value` is `values = []` / `values = [value]` -/

/-- the representation invariant of async's `hasValue` / `value` fields -/
def AtMostOneValue (s : State α) : Prop := s.values = [] ∨ ∃ p, s.values = [p]

theorem async_td_gen : async_td = TD.delete := rfl
theorem async_broadcastNext_gen (s : State α) (c : Ctx) (v : α) : async_broadcastNext s c v = broadcastNext s c v := rfl
theorem async_broadcastError_gen (s : State α) (c : Ctx) (e : Err) :
    async_broadcastError s c e = broadcastTerminal s (.error c e) := rfl
theorem async_broadcastComplete_gen (s : State α) (c : Ctx) :
    async_broadcastComplete s c = broadcastTerminal s (.complete c) := rfl
theorem async_unsubscribeAll_gen (s : State α) : async_unsubscribeAll s = unsubscribeAll s := unsubscribeAll_gen s

theorem async_subscribe_gen (s : State α) (h : AtMostOneValue s) (i : Nat) (c : Ctx) :
    asyncStep s (.subscribe i c) = if (s.sub i).used then s else async_subscribe s i c := by
  simp only [asyncStep, async_subscribe]
  have hst : (fresh s i).status = s.status := rfl
  have hv : (fresh s i).values = s.values := rfl
  split
  · rfl
  · rcases h with h | ⟨p, h⟩ <;> split <;> split <;> subj_close

theorem async_next_gen (s : State α) (c : Ctx) (v : α) : asyncStep s (.next c v) = async_next s c v := by
  simp only [asyncStep, async_next]
  split <;> split <;> subj_close

theorem async_error_gen (s : State α) (c : Ctx) (e : Err) : asyncStep s (.error c e) = async_error s c e := by
  simp only [asyncStep, async_error, async_broadcastError_gen, async_unsubscribeAll_gen]
  split <;> split <;> subj_close

theorem async_complete_gen (s : State α) (h : AtMostOneValue s) (c : Ctx) :
    asyncStep s (.complete c) = async_complete s c := by
  simp only [asyncStep, async_complete, async_broadcastNext_gen, async_broadcastComplete_gen, async_unsubscribeAll_gen]
  rcases h with h | ⟨p, h⟩ <;> split <;> split <;> subj_close

theorem async_unsubscribe_gen (s : State α) (i : Nat) :
    asyncStep s (.unsubscribe i) = if (s.sub i).used then subUnsubscribe async_td s i else s := rfl

theorem async_init_gen : (Kind.async : Kind α).init = async_init := rfl

theorem async_queries_gen (s : State α) :
    s.countObservers = async_countObservers s ∧ s.hasObserver = async_hasObserver s ∧ s.isClosed = async_isClosed s
      ∧ s.hasThrown = async_hasThrown s ∧ s.isCompleted = async_isCompleted s := by
  refine ⟨rfl, ?_, rfl, rfl, rfl⟩
  unfold State.hasObserver async_hasObserver
  cases s.observers <;> rfl

/-! ### unicast: the single `observer` field is `observers = []` / `observers = [o]` -/

theorem unicast_td_gen : unicast_td = TD.clear := rfl

theorem unicast_subscribe_gen (cap : Option Nat) (s : State α) (i : Nat) (c : Ctx) :
    unicastStep cap s (.subscribe i c) = if (s.sub i).used then s else unicast_subscribe cap s i c := by
  simp only [unicastStep, unicast_subscribe]
  have hst : (fresh s i).status = s.status := rfl
  have ho : (fresh s i).observers = s.observers := rfl
  have hv : (fresh s i).values = s.values := rfl
  split
  · rfl
  · split <;> split <;> (try split) <;> (try split) <;> subj_close

theorem unicast_next_gen (cap : Option Nat) (s : State α) (c : Ctx) (v : α) :
    unicastStep cap s (.next c v) = unicast_next cap s c v := by
  simp only [unicastStep, unicast_next]
  split <;> split <;> (try split) <;> (try split) <;>
    first | subj_close | (rw [← push_gen]; cases cap <;> simp [State.drop])

theorem unicast_error_gen (cap : Option Nat) (s : State α) (c : Ctx) (e : Err) :
    unicastStep cap s (.error c e) = unicast_error cap s c e := by
  simp only [unicastStep, unicast_error]
  split <;> split <;> (try split) <;> (try split) <;> subj_close

theorem unicast_complete_gen (cap : Option Nat) (s : State α) (c : Ctx) :
    unicastStep cap s (.complete c) = unicast_complete cap s c := by
  simp only [unicastStep, unicast_complete]
  split <;> split <;> (try split) <;> (try split) <;> subj_close

theorem unicast_unsubscribe_gen (cap : Option Nat) (s : State α) (i : Nat) :
    unicastStep cap s (.unsubscribe i) = if (s.sub i).used then subUnsubscribe unicast_td s i else s := rfl

theorem unicast_init_gen (cap : Option Nat) : (Kind.unicast cap : Kind α).init = unicast_init := rfl

theorem unicast_queries_gen (s : State α) (h : s.observers.length ≤ 1) :
    s.countObservers = unicast_countObservers s ∧ s.hasObserver = unicast_hasObserver s ∧ s.isClosed = unicast_isClosed s
      ∧ s.hasThrown = unicast_hasThrown s ∧ s.isCompleted = unicast_isCompleted s := by
  refine ⟨?_, ?_, rfl, rfl, rfl⟩
  · unfold State.countObservers unicast_countObservers
    match hs : s.observers with
    | [] => rfl
    | [_] => rfl
    | _ :: _ :: _ => simp [hs] at h
  · unfold State.hasObserver unicast_hasObserver
    cases s.observers <;> rfl

/-! ### the representation invariants hold in every reachable state -/

theorem subNext_values (s : State α) (i : Nat) (c : Ctx) (v : α) : (subNext s i c v).values = s.values := by
  unfold subNext; split <;> rfl

theorem runTeardown_values (m : TD) (s : State α) (i : Nat) : (runTeardown m s i).values = s.values := by
  unfold runTeardown
  split
  · cases m <;> rfl
  · rfl

theorem subTerminal_values (m : TD) (s : State α) (i : Nat) (n : Notif α) : (subTerminal m s i n).values = s.values := by
  unfold subTerminal
  rw [runTeardown_values]
  split <;> rfl

theorem subUnsubscribe_values (m : TD) (s : State α) (i : Nat) : (subUnsubscribe m s i).values = s.values := by
  unfold subUnsubscribe
  split
  · rw [runTeardown_values]; rfl
  · rfl

theorem foldl_values {β : Type} (f : State α → β → State α) (hf : ∀ s b, (f s b).values = s.values) (l : List β) (s : State α) :
    (l.foldl f s).values = s.values := by
  induction l generalizing s with
  | nil => rfl
  | cons b l ih => rw [List.foldl_cons, ih, hf]

theorem broadcastNext_values (s : State α) (c : Ctx) (v : α) : (broadcastNext s c v).values = s.values :=
  foldl_values _ (fun s i => subNext_values s i c v) _ _

theorem broadcastTerminal_values (s : State α) (n : Notif α) : (broadcastTerminal s n).values = s.values :=
  foldl_values _ (fun s i => subTerminal_values .delete s i n) _ _

theorem replayTo_values (s : State α) (i : Nat) (vs : List (Ctx × α)) : (replayTo s i vs).values = s.values :=
  foldl_values (fun s (p : Ctx × α) => subNext s i p.1 p.2) (fun s p => subNext_values s i p.1 p.2) _ _

theorem behaviorStep_values (s : State α) (o : Op α) :
    (behaviorStep s o).values = match o, s.status with
      | .next c v, .active => [(c, v)]
      | _, _ => s.values := by
  cases o with
  | next c v =>
    simp only [behaviorStep]
    split <;> simp_all [broadcastNext_values]
  | error c e =>
    simp only [behaviorStep, unsubscribeAll]
    split <;> simp_all [broadcastTerminal_values]
  | complete c =>
    simp only [behaviorStep, unsubscribeAll]
    split <;> simp_all [broadcastTerminal_values]
  | subscribe i c =>
    simp only [behaviorStep]
    split
    · rfl
    · split <;> simp [subTerminal_values, register, replayTo_values, fresh]
  | unsubscribe i =>
    simp only [behaviorStep]
    split <;> simp [subUnsubscribe_values]

theorem behaviorStep_oneValue {s : State α} (h : OneValue s) (o : Op α) : OneValue (behaviorStep s o) := by
  unfold OneValue
  rw [behaviorStep_values]
  split
  · exact ⟨_, rfl⟩
  · exact h

theorem behavior_reachable (init : α) (ops : List (Op α)) : OneValue (run (.behavior init) ops) := by
  have : ∀ (ops : List (Op α)) (s : State α), OneValue s → OneValue (runFrom (.behavior init) s ops) := by
    intro ops
    induction ops with
    | nil => exact fun _ h => h
    | cons o ops ih => exact fun s h => ih _ (behaviorStep_oneValue h o)
  exact this ops _ ⟨_, rfl⟩

theorem asyncStep_values (s : State α) (o : Op α) :
    (asyncStep s o).values = match o, s.status with
      | .next c v, .active => [(c, v)]
      | _, _ => s.values := by
  cases o with
  | next c v =>
    simp only [asyncStep]
    split <;> simp_all
  | error c e =>
    simp only [asyncStep, unsubscribeAll]
    split <;> simp_all [broadcastTerminal_values]
  | complete c =>
    simp only [asyncStep, unsubscribeAll]
    split
    · simp only [broadcastTerminal_values]
      exact foldl_values (fun s (p : Ctx × α) => broadcastNext s p.1 p.2) (fun s p => broadcastNext_values s p.1 p.2) _ _
    · simp_all
  | subscribe i c =>
    simp only [asyncStep]
    split
    · rfl
    · split <;> simp [subTerminal_values, register, replayTo_values, fresh]
  | unsubscribe i =>
    simp only [asyncStep]
    split <;> simp [subUnsubscribe_values]

theorem asyncStep_atMostOne {s : State α} (h : AtMostOneValue s) (o : Op α) : AtMostOneValue (asyncStep s o) := by
  unfold AtMostOneValue
  rw [asyncStep_values]
  split
  · exact Or.inr ⟨_, rfl⟩
  · exact h

theorem async_reachable (ops : List (Op α)) : AtMostOneValue (run (.async : Kind α) ops) := by
  have : ∀ (ops : List (Op α)) (s : State α), AtMostOneValue s → AtMostOneValue (runFrom .async s ops) := by
    intro ops
    induction ops with
    | nil => exact fun _ h => h
    | cons o ops ih => exact fun s h => ih _ (asyncStep_atMostOne h o)
  exact this ops _ (Or.inl rfl)

/-! ### the regenerated step function and the run-level statement -/

/-- the client conventions of RoModel/Subjects.lean around the regenerated methods: `Subscribe i` on an
    identity already used and `Unsubscribe i` without a subscription are not issued -/
def guardSub (s : State α) (i : Nat) (t : State α) : State α := if (s.sub i).used then s else t
def guardUnsub (m : TD) (s : State α) (i : Nat) : State α := if (s.sub i).used then subUnsubscribe m s i else s

/-- one operation executed by the definitions regenerated from subject_*.go -/
def genStep : Kind α → State α → Op α → State α
  | .publish, s, .subscribe i c => guardSub s i (publish_subscribe s i c)
  | .publish, s, .next c v => publish_next s c v
  | .publish, s, .error c e => publish_error s c e
  | .publish, s, .complete c => publish_complete s c
  | .publish, s, .unsubscribe i => guardUnsub publish_td s i
  | .behavior _, s, .subscribe i c => guardSub s i (behavior_subscribe s i c)
  | .behavior _, s, .next c v => behavior_next s c v
  | .behavior _, s, .error c e => behavior_error s c e
  | .behavior _, s, .complete c => behavior_complete s c
  | .behavior _, s, .unsubscribe i => guardUnsub behavior_td s i
  | .replay cap, s, .subscribe i c => guardSub s i (replay_subscribe cap s i c)
  | .replay cap, s, .next c v => replay_next cap s c v
  | .replay cap, s, .error c e => replay_error cap s c e
  | .replay cap, s, .complete c => replay_complete cap s c
  | .replay _, s, .unsubscribe i => guardUnsub replay_td s i
  | .async, s, .subscribe i c => guardSub s i (async_subscribe s i c)
  | .async, s, .next c v => async_next s c v
  | .async, s, .error c e => async_error s c e
  | .async, s, .complete c => async_complete s c
  | .async, s, .unsubscribe i => guardUnsub async_td s i
  | .unicast cap, s, .subscribe i c => guardSub s i (unicast_subscribe cap s i c)
  | .unicast cap, s, .next c v => unicast_next cap s c v
  | .unicast cap, s, .error c e => unicast_error cap s c e
  | .unicast cap, s, .complete c => unicast_complete cap s c
  | .unicast _, s, .unsubscribe i => guardUnsub unicast_td s i

def genInit : Kind α → State α
  | .publish => publish_init
  | .behavior v => behavior_init v
  | .replay _ => replay_init
  | .async => async_init
  | .unicast _ => unicast_init

/-- the representation invariant of a kind (trivial for publish, replay, unicast) -/
def RepInv : Kind α → State α → Prop
  | .behavior _, s => OneValue s
  | .async, s => AtMostOneValue s
  | _, _ => True

theorem step_gen (k : Kind α) (s : State α) (h : RepInv k s) (o : Op α) : k.step s o = genStep k s o := by
  cases k with
  | publish =>
    cases o with
    | subscribe i c => exact publish_subscribe_gen s i c
    | next c v => exact publish_next_gen s c v
    | error c e => exact publish_error_gen s c e
    | complete c => exact publish_complete_gen s c
    | unsubscribe i => rfl
  | behavior init =>
    cases o with
    | subscribe i c => exact behavior_subscribe_gen s h i c
    | next c v => exact behavior_next_gen s c v
    | error c e => exact behavior_error_gen s c e
    | complete c => exact behavior_complete_gen s c
    | unsubscribe i => rfl
  | replay cap =>
    cases o with
    | subscribe i c => exact replay_subscribe_gen cap s i c
    | next c v => exact replay_next_gen cap s c v
    | error c e => exact replay_error_gen cap s c e
    | complete c => exact replay_complete_gen cap s c
    | unsubscribe i => rfl
  | async =>
    cases o with
    | subscribe i c => exact async_subscribe_gen s h i c
    | next c v => exact async_next_gen s c v
    | error c e => exact async_error_gen s c e
    | complete c => exact async_complete_gen s h c
    | unsubscribe i => rfl
  | unicast cap =>
    cases o with
    | subscribe i c => exact unicast_subscribe_gen cap s i c
    | next c v => exact unicast_next_gen cap s c v
    | error c e => exact unicast_error_gen cap s c e
    | complete c => exact unicast_complete_gen cap s c
    | unsubscribe i => rfl

theorem repInv_step (k : Kind α) {s : State α} (h : RepInv k s) (o : Op α) : RepInv k (k.step s o) := by
  cases k with
  | behavior init => exact behaviorStep_oneValue h o
  | async => exact asyncStep_atMostOne h o
  | publish => trivial
  | replay cap => trivial
  | unicast cap => trivial

theorem repInv_init (k : Kind α) : RepInv k k.init := by
  cases k with
  | behavior init => exact ⟨_, rfl⟩
  | async => exact Or.inl rfl
  | publish => trivial
  | replay cap => trivial
  | unicast cap => trivial

theorem init_gen (k : Kind α) : k.init = genInit k := by cases k <;> rfl

/-- **The model's runs are the regenerated code's runs**: for every kind, buffer size and operation
    sequence, the state reached by the hand-written step functions (the ones every C10 theorem is
    about) is the state reached by executing the definitions regenerated from subject_*.go. -/
theorem run_gen (k : Kind α) (ops : List (Op α)) : run k ops = ops.foldl (genStep k) (genInit k) := by
  have : ∀ (ops : List (Op α)) (s : State α), RepInv k s → runFrom k s ops = ops.foldl (genStep k) s := by
    intro ops
    induction ops with
    | nil => exact fun _ _ => rfl
    | cons o ops ih =>
      intro s h
      show runFrom k (k.step s o) ops = List.foldl (genStep k) (genStep k s o) ops
      rw [← step_gen k s h o]
      exact ih _ (repInv_step k h o)
  rw [← init_gen]
  exact this ops _ (repInv_init k)

/-- the queries read after every step of the correspondence are the regenerated ones, in every
    reachable state (unicast: `CountObservers` returns 0 or 1) -/
theorem unicast_queries_run_gen (cap : Option Nat) (ops : List (Op α)) :
    let s := run (.unicast cap) ops
    s.countObservers = unicast_countObservers s ∧ s.hasObserver = unicast_hasObserver s ∧ s.isClosed = unicast_isClosed s
      ∧ s.hasThrown = unicast_hasThrown s ∧ s.isCompleted = unicast_isCompleted s :=
  unicast_queries_gen _ (unicast_one_observer cap ops)

/-! ### the translator read everything -/

theorem nothing_skipped : RoGen.Subj.skipped = [] := by decide

theorem translated_names : RoGen.Subj.translated =
    ["publish_td", "publish_broadcastNext", "publish_broadcastError", "publish_broadcastComplete", "publish_unsubscribeAll",
     "publish_subscribe", "publish_next", "publish_error", "publish_complete", "publish_init",
     "publish_hasObserver", "publish_countObservers", "publish_isClosed", "publish_hasThrown", "publish_isCompleted",
     "behavior_td", "behavior_broadcastNext", "behavior_broadcastError", "behavior_broadcastComplete", "behavior_unsubscribeAll",
     "behavior_subscribe", "behavior_next", "behavior_error", "behavior_complete", "behavior_init",
     "behavior_hasObserver", "behavior_countObservers", "behavior_isClosed", "behavior_hasThrown", "behavior_isCompleted",
     "replay_td", "replay_broadcastNext", "replay_broadcastError", "replay_broadcastComplete", "replay_unsubscribeAll",
     "replay_subscribe", "replay_next", "replay_error", "replay_complete", "replay_init",
     "replay_hasObserver", "replay_countObservers", "replay_isClosed", "replay_hasThrown", "replay_isCompleted",
     "async_td", "async_broadcastNext", "async_broadcastError", "async_broadcastComplete", "async_unsubscribeAll",
     "async_subscribe", "async_next", "async_error", "async_complete", "async_init",
     "async_hasObserver", "async_countObservers", "async_isClosed", "async_hasThrown", "async_isCompleted",
     "unicast_td", "unicast_subscribe", "unicast_next", "unicast_error", "unicast_complete", "unicast_init",
     "unicast_hasObserver", "unicast_countObservers", "unicast_isClosed", "unicast_hasThrown", "unicast_isCompleted"] := by decide

/-! ### non-vacuity: the regenerated definitions compute -/

example : ((([Op.subscribe 0 (Ctx.bg), .next Ctx.bg 7, .next Ctx.bg 8, .subscribe 1 Ctx.bg, .complete Ctx.bg] : List (Op Nat)).foldl
    (genStep (.replay (some 1))) (genInit (.replay (some 1)))).sub 1).got = [.next Ctx.bg 8, .complete Ctx.bg] := by decide

example : ((([Op.next Ctx.bg 7, .next Ctx.bg 8, .subscribe 0 Ctx.bg, .next Ctx.bg 9] : List (Op Nat)).foldl
    (genStep (.unicast none)) (genInit (.unicast none))).sub 0).got = [.next Ctx.bg 7, .next Ctx.bg 8, .next Ctx.bg 9] := by decide

end Ro.C10gen

#print axioms Ro.C10gen.foldl_filter_observers
#print axioms Ro.C10gen.unsubscribeAll_gen
#print axioms Ro.C10gen.publish_td_gen
#print axioms Ro.C10gen.publish_broadcastNext_gen
#print axioms Ro.C10gen.publish_broadcastError_gen
#print axioms Ro.C10gen.publish_broadcastComplete_gen
#print axioms Ro.C10gen.publish_unsubscribeAll_gen
#print axioms Ro.C10gen.publish_subscribe_gen
#print axioms Ro.C10gen.publish_next_gen
#print axioms Ro.C10gen.publish_error_gen
#print axioms Ro.C10gen.publish_complete_gen
#print axioms Ro.C10gen.publish_unsubscribe_gen
#print axioms Ro.C10gen.publish_init_gen
#print axioms Ro.C10gen.publish_queries_gen
#print axioms Ro.C10gen.behavior_td_gen
#print axioms Ro.C10gen.behavior_broadcastNext_gen
#print axioms Ro.C10gen.behavior_broadcastError_gen
#print axioms Ro.C10gen.behavior_broadcastComplete_gen
#print axioms Ro.C10gen.behavior_unsubscribeAll_gen
#print axioms Ro.C10gen.behavior_subscribe_gen
#print axioms Ro.C10gen.behavior_next_gen
#print axioms Ro.C10gen.behavior_error_gen
#print axioms Ro.C10gen.behavior_complete_gen
#print axioms Ro.C10gen.behavior_unsubscribe_gen
#print axioms Ro.C10gen.behavior_init_gen
#print axioms Ro.C10gen.behavior_queries_gen
#print axioms Ro.C10gen.replay_td_gen
#print axioms Ro.C10gen.replay_broadcastNext_gen
#print axioms Ro.C10gen.replay_broadcastError_gen
#print axioms Ro.C10gen.replay_broadcastComplete_gen
#print axioms Ro.C10gen.replay_unsubscribeAll_gen
#print axioms Ro.C10gen.push_gen
#print axioms Ro.C10gen.foldl_subNext_status
#print axioms Ro.C10gen.replay_subscribe_gen
#print axioms Ro.C10gen.replay_next_gen
#print axioms Ro.C10gen.replay_error_gen
#print axioms Ro.C10gen.replay_complete_gen
#print axioms Ro.C10gen.replay_unsubscribe_gen
#print axioms Ro.C10gen.replay_init_gen
#print axioms Ro.C10gen.replay_queries_gen
#print axioms Ro.C10gen.async_td_gen
#print axioms Ro.C10gen.async_broadcastNext_gen
#print axioms Ro.C10gen.async_broadcastError_gen
#print axioms Ro.C10gen.async_broadcastComplete_gen
#print axioms Ro.C10gen.async_unsubscribeAll_gen
#print axioms Ro.C10gen.async_subscribe_gen
#print axioms Ro.C10gen.async_next_gen
#print axioms Ro.C10gen.async_error_gen
#print axioms Ro.C10gen.async_complete_gen
#print axioms Ro.C10gen.async_unsubscribe_gen
#print axioms Ro.C10gen.async_init_gen
#print axioms Ro.C10gen.async_queries_gen
#print axioms Ro.C10gen.unicast_td_gen
#print axioms Ro.C10gen.unicast_subscribe_gen
#print axioms Ro.C10gen.unicast_next_gen
#print axioms Ro.C10gen.unicast_error_gen
#print axioms Ro.C10gen.unicast_complete_gen
#print axioms Ro.C10gen.unicast_unsubscribe_gen
#print axioms Ro.C10gen.unicast_init_gen
#print axioms Ro.C10gen.unicast_queries_gen
#print axioms Ro.C10gen.subNext_values
#print axioms Ro.C10gen.runTeardown_values
#print axioms Ro.C10gen.subTerminal_values
#print axioms Ro.C10gen.subUnsubscribe_values
#print axioms Ro.C10gen.foldl_values
#print axioms Ro.C10gen.broadcastNext_values
#print axioms Ro.C10gen.broadcastTerminal_values
#print axioms Ro.C10gen.replayTo_values
#print axioms Ro.C10gen.behaviorStep_values
#print axioms Ro.C10gen.behaviorStep_oneValue
#print axioms Ro.C10gen.behavior_reachable
#print axioms Ro.C10gen.asyncStep_values
#print axioms Ro.C10gen.asyncStep_atMostOne
#print axioms Ro.C10gen.async_reachable
#print axioms Ro.C10gen.step_gen
#print axioms Ro.C10gen.repInv_step
#print axioms Ro.C10gen.repInv_init
#print axioms Ro.C10gen.init_gen
#print axioms Ro.C10gen.run_gen
#print axioms Ro.C10gen.unicast_queries_run_gen
#print axioms Ro.C10gen.nothing_skipped
#print axioms Ro.C10gen.translated_names

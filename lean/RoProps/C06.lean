/-
  C06 (kernel part) — Unsubscribe cuts delivery; IsClosed and Wait tell the truth.

  In the concurrent kernel (`Kernel.Conc` running the programs of subscriberImpl / subscriptionImpl,
  tied to the Go sources by RoProps/KernelTie.lean), every mode, any threads, scripts, schedule:

  * `status` is monotone: once non-zero it never changes again;
  * after the return event of any closing call (Unsubscribe — successful or not —, Error, Complete)
    `status ≠ 0`;
  * from such a state on, a thread that has not already passed its status test (in particular every
    thread that is between two calls, i.e. every call that *starts* later) never reaches
    callback-begin, under every continuation of the schedule; and its IsClosed calls return true;
    a Next that had loaded status = 0 *before* may still deliver — its call began earlier, which the
    property allows (DESIGN-kernel.md §1 consequence (b));
  * Unsubscribe takes neither `mu` nor blocks on it (its program is one CAS and
    Subscription.Unsubscribe), so it can be called from inside a callback: `kernel_unsubscribe_never_takes_mu`;
  * Wait returns only in states where `done` holds and its own signalling finalizer has run.
-/
import RoProofs.Kernel.Cut
import RoProofs.Kernel.Main2
import RoProps.KernelTie
namespace Ro.C06
open Ro.Kernel

/-- C06: `status` is monotone -/
theorem kernel_status_monotone (mode : Mode) (destNil : Bool) (panicky : List FinId)
    (scripts : List (List ApiCall)) (sched : List Tid) (t : Tid) (s' : St)
    (h : step Expected.progs (run Expected.progs (init mode destNil panicky scripts) sched) t = some s')
    (hs : (run Expected.progs (init mode destNil panicky scripts) sched).sh.status ≠ 0) :
    s'.sh.status = (run Expected.progs (init mode destNil panicky scripts) sched).sh.status :=
  status_mono (kinv_reachable mode destNil panicky scripts sched).lock h hs

/-- C06: once a closing call has returned (its `ret` event is in the log), `status ≠ 0` -/
theorem kernel_closed_after_return (mode : Mode) (destNil : Bool) (panicky : List FinId)
    (scripts : List (List ApiCall)) (sched : List Tid)
    (hc : closedLog (run Expected.progs (init mode destNil panicky scripts) sched).sh.log = true) :
    (run Expected.progs (init mode destNil panicky scripts) sched).sh.status ≠ 0 :=
  (kinv_reachable mode destNil panicky scripts sched).closed.closed hc

/-- C06: after the return of a closing call, a thread that is between two calls (so all its calls
    start later) never reaches callback-begin, and every IsClosed it issues answers true — for every
    continuation `sched2` of the schedule. `evs` are the events logged during the continuation. -/
theorem kernel_unsubscribe_cuts (mode : Mode) (destNil : Bool) (panicky : List FinId)
    (scripts : List (List ApiCall)) (sched1 sched2 : List Tid) (u : Tid) (thu : Thread)
    (hc : closedLog (run Expected.progs (init mode destNil panicky scripts) sched1).sh.log = true)
    (hu : (run Expected.progs (init mode destNil panicky scripts) sched1).threads[u]? = some thu)
    (hidle : thu.ctl.stack = []) (hcur : thu.cur = none) :
    ∃ evs, (run Expected.progs (init mode destNil panicky scripts) (sched1 ++ sched2)).sh.log =
        (run Expected.progs (init mode destNil panicky scripts) sched1).sh.log ++ evs ∧
      (∀ e ∈ evs, ∀ k x, e ≠ .cbBegin u k x) ∧ (∀ e ∈ evs, ∀ r, e = .ret u .isClosed r → r = .bool true) := by
  have hk := kinv_reachable mode destNil panicky scripts sched1
  have ha : After (run Expected.progs (init mode destNil panicky scripts) sched1).sh thu :=
    after_of_closed hk hc (idle_not_armed hidle) (by rw [hcur]; simp)
  obtain ⟨_, _, _, evs, hl, he⟩ := after_run sched2 hk hu ha
  rw [run_append]
  refine ⟨evs, hl, ?_, ?_⟩
  · intro e hm k x hx
    exact (he e hm).1 ⟨by rw [hx]; rfl, by rw [hx]; rfl⟩
  · intro e hm r hr
    exact (he e hm).2 r hr

/-- the general form: any thread that is not armed at that moment — it may be in the middle of a
    Next / Error / Complete, before its status test (the hypothesis excludes only a thread that is
    inside an IsClosed call, which never calls the destination anyway) -/
theorem kernel_cut_not_armed (mode : Mode) (destNil : Bool) (panicky : List FinId)
    (scripts : List (List ApiCall)) (sched1 sched2 : List Tid) (u : Tid) (thu : Thread)
    (hs : (run Expected.progs (init mode destNil panicky scripts) sched1).sh.status ≠ 0)
    (hu : (run Expected.progs (init mode destNil panicky scripts) sched1).threads[u]? = some thu)
    (hq : thu.ctl.armed = none) (hic : thu.cur ≠ some .isClosed) :
    ∃ evs, (run Expected.progs (init mode destNil panicky scripts) (sched1 ++ sched2)).sh.log =
        (run Expected.progs (init mode destNil panicky scripts) sched1).sh.log ++ evs ∧
      ∀ e ∈ evs, ∀ k x, e ≠ .cbBegin u k x := by
  have hk := kinv_reachable mode destNil panicky scripts sched1
  have ha : After (run Expected.progs (init mode destNil panicky scripts) sched1).sh thu :=
    ⟨hs, hq, fun h => absurd h hic⟩
  obtain ⟨_, _, _, evs, hl, he⟩ := after_run sched2 hk hu ha
  rw [run_append]
  exact ⟨evs, hl, fun e hm k x hx => (he e hm).1 ⟨by rw [hx]; rfl, by rw [hx]; rfl⟩⟩

/-- C06: Unsubscribe never touches `mu` (so it cannot deadlock with the callback it is called from):
    no control state of an Unsubscribe call holds `mu` or is about to acquire it -/
theorem kernel_unsubscribe_never_takes_mu :
    (reachM .subUnsubscribe).all (fun c => !c.holds .mu &&
      (match c.head with | .stmt (.lock .mu) | .stmt (.tryLock .mu _ _) | .stmt (.unlock .mu) => false | _ => true)) = true := by
  decide +kernel

/-- … and every thread executing an Unsubscribe call is in one of those control states -/
theorem kernel_unsubscribe_ctl (mode : Mode) (destNil : Bool) (panicky : List FinId)
    (scripts : List (List ApiCall)) (sched : List Tid) (t : Tid) (th : Thread)
    (ht : (run Expected.progs (init mode destNil panicky scripts) sched).threads[t]? = some th)
    (hc : th.cur = some .unsubscribe) : th.ctl ∈ reachM .subUnsubscribe :=
  (kinv_reachable mode destNil panicky scripts sched).closed.busy t th _ ht hc

/-- C06: a Wait call returns only when its own finalizer has run and `done` holds -/
theorem kernel_wait_returns_when_done (mode : Mode) (destNil : Bool) (panicky : List FinId)
    (scripts : List (List ApiCall)) (sched : List Tid) (t u : Tid) (f : FinId) (r : Res) (s' : St)
    (h : step Expected.progs (run Expected.progs (init mode destNil panicky scripts) sched) t = some s')
    (hlog : Logs (run Expected.progs (init mode destNil panicky scripts) sched) s' (.ret u (.wait f) r)) :
    f ∈ (run Expected.progs (init mode destNil panicky scripts) sched).sh.ran ∧
    (run Expected.progs (init mode destNil panicky scripts) sched).sh.done = true :=
  wait_returns_when_done (kinv_reachable mode destNil panicky scripts sched) h hlog

/-- C06: `done` implies `status ≠ 0` is NOT claimed the other way round: a failed Unsubscribe CAS may
    return before the winner has set `done`; what holds is: whenever anything ran, `done` is set -/
theorem kernel_done_before_run (mode : Mode) (destNil : Bool) (panicky : List FinId)
    (scripts : List (List ApiCall)) (sched : List Tid)
    (h : (run Expected.progs (init mode destNil panicky scripts) sched).sh.ran ≠ []) :
    (run Expected.progs (init mode destNil panicky scripts) sched).sh.done = true :=
  (kinv_reachable mode destNil panicky scripts sched).tear.ranDone h

/-! ### the same on the whole history (the predicates the harness evaluates on the recorded log) -/

/-- C06 on the history: scanning the log of any run, once a closing call (Unsubscribe, Error,
    Complete) has returned, no call whose CALL event comes later ever logs a callback-begin -/
theorem kernel_cutLog (mode : Mode) (destNil : Bool) (panicky : List FinId) (scripts : List (List ApiCall))
    (sched : List Tid) : cutLog (run Expected.progs (init mode destNil panicky scripts) sched).sh.log = true :=
  (xinv_reachable mode destNil panicky scripts sched).late.cutOk

/-- C06 on the history: … and every IsClosed called later returns true -/
theorem kernel_isClosedLog (mode : Mode) (destNil : Bool) (panicky : List FinId) (scripts : List (List ApiCall))
    (sched : List Tid) : isClosedLog (run Expected.progs (init mode destNil panicky scripts) sched).sh.log = true :=
  (xinv_reachable mode destNil panicky scripts sched).late.closedOk

/-- C06 on the history: every return event of a Wait is preceded by the run of its own finalizer
    (which happens only when `done`: `kernel_done_before_run`) -/
theorem kernel_waitLog (mode : Mode) (destNil : Bool) (panicky : List FinId) (scripts : List (List ApiCall))
    (sched : List Tid) : waitLog (run Expected.progs (init mode destNil panicky scripts) sched).sh.log = true :=
  (xinv_reachable mode destNil panicky scripts sched).wr.wait

/-! ### the terminal callback has returned before `done` -/

/-- C06, safe / eventually-safe mode: in every reachable state with `done`, no thread is inside, or
    about to begin, a terminal callback (`Ctl.termPending`): when the stream ends by itself the
    terminal callback-end precedes `done`. (With the no-op mutex and two producers this is false: the
    loser of the status CAS sets `done` while the winner's callback runs.) -/
theorem kernel_terminal_end_before_done (mode : Mode) (hm : mode ≠ .unsafeMode) (destNil : Bool)
    (panicky : List FinId) (scripts : List (List ApiCall)) (sched : List Tid)
    (hd : (run Expected.progs (init mode destNil panicky scripts) sched).sh.done = true) (t : Tid) (th : Thread)
    (ht : (run Expected.progs (init mode destNil panicky scripts) sched).threads[t]? = some th) :
    th.ctl.termPending = false ∧
    (th.ctl.inside = true → ∀ k, th.ctl.head = .stmt (.callDest k) → k.isTerminal = false) := by
  have h := ((einv_reachable mode hm destNil panicky scripts sched).ending.done hd).2 t th ht
  exact ⟨h, fun hin k hh => not_inside_terminal h hin k hh⟩

/-- C06: hence a Wait returns only after the terminal callback has returned -/
theorem kernel_wait_after_terminal_end (mode : Mode) (hm : mode ≠ .unsafeMode) (destNil : Bool)
    (panicky : List FinId) (scripts : List (List ApiCall)) (sched : List Tid) (t u : Tid) (f : FinId) (r : Res) (s' : St)
    (h : step Expected.progs (run Expected.progs (init mode destNil panicky scripts) sched) t = some s')
    (hlog : Logs (run Expected.progs (init mode destNil panicky scripts) sched) s' (.ret u (.wait f) r))
    (v : Tid) (thv : Thread)
    (hv : (run Expected.progs (init mode destNil panicky scripts) sched).threads[v]? = some thv) :
    thv.ctl.termPending = false :=
  (kernel_terminal_end_before_done mode hm destNil panicky scripts sched
    (kernel_wait_returns_when_done mode destNil panicky scripts sched t u f r s' h hlog).2 v thv hv).1

/-! ### deadlock-freedom

Hypothesis (built into `Conc`): destination callbacks and teardowns are opaque actions — they do not
call back into the same subscriber / subscription. The known self-deadlock (a teardown that calls
Add on its own, already disposed, subscription: it runs under `subMu`, `kernel_runNow_holds_subMu`)
is outside this hypothesis; `reentrant_teardown_deadlock_witness` shows it in the same interpreter. -/

/-- C06: a thread that is unfinished and cannot move either waits for a lock whose owner is another
    thread that CAN move, or is a Wait whose own finalizer has not run yet -/
theorem kernel_disabled_thread (mode : Mode) (destNil : Bool) (panicky : List FinId) (scripts : List (List ApiCall))
    (sched : List Tid) (t : Tid) (th : Thread)
    (ht : (run Expected.progs (init mode destNil panicky scripts) sched).threads[t]? = some th)
    (hun : th.unfinished)
    (hdis : step Expected.progs (run Expected.progs (init mode destNil panicky scripts) sched) t = none) :
    (∃ l u, th.ctl.head = .stmt (.lock l) ∧
        (run Expected.progs (init mode destNil panicky scripts) sched).sh.owner l = some u ∧ u ≠ t ∧
        ∃ s', step Expected.progs (run Expected.progs (init mode destNil panicky scripts) sched) u = some s') ∨
    (th.ctl.head = .stmt .recv ∧ th.f ∉ (run Expected.progs (init mode destNil panicky scripts) sched).sh.ran) := by
  have hx := xinv_reachable mode destNil panicky scripts sched
  exact disabled_cases hx.k hx.own ht hdis hun

/-- C06, no deadlock: in every reachable state with an unfinished thread, some thread is enabled —
    or every unfinished thread is inside Wait and its finalizer has not run (nobody has closed the
    subscription and no enabled thread is left to do so) -/
theorem kernel_no_deadlock (mode : Mode) (destNil : Bool) (panicky : List FinId) (scripts : List (List ApiCall))
    (sched : List Tid) (t : Tid) (th : Thread)
    (ht : (run Expected.progs (init mode destNil panicky scripts) sched).threads[t]? = some th)
    (hun : th.unfinished) :
    (∃ u s', step Expected.progs (run Expected.progs (init mode destNil panicky scripts) sched) u = some s') ∨
    (∀ (v : Tid) (thv : Thread), (run Expected.progs (init mode destNil panicky scripts) sched).threads[v]? = some thv →
        thv.unfinished → thv.ctl.head = .stmt .recv ∧
          thv.f ∉ (run Expected.progs (init mode destNil panicky scripts) sched).sh.ran) := by
  by_cases hen : ∃ u s', step Expected.progs (run Expected.progs (init mode destNil panicky scripts) sched) u = some s'
  · exact Or.inl hen
  · right
    intro v thv hv hunv
    have hdis : step Expected.progs (run Expected.progs (init mode destNil panicky scripts) sched) v = none := by
      cases hs : step Expected.progs (run Expected.progs (init mode destNil panicky scripts) sched) v with
      | none => rfl
      | some s' => exact absurd ⟨v, s', hs⟩ hen
    rcases kernel_disabled_thread mode destNil panicky scripts sched v thv hv hunv hdis with ⟨l, u, _, _, _, s', hs'⟩ | h
    · exact absurd ⟨u, s', hs'⟩ hen
    · exact h

/-- C06: Unsubscribe / IsClosed / Next / Error / Complete / Add never wait on the channel: a thread
    in one of these calls that cannot move is waiting for a lock whose owner can move (so these
    calls return under any fair schedule: every critical section of `mu` and `subMu` is finite) -/
theorem kernel_only_wait_waits (mode : Mode) (destNil : Bool) (panicky : List FinId) (scripts : List (List ApiCall))
    (sched : List Tid) (t : Tid) (th : Thread) (c : ApiCall)
    (ht : (run Expected.progs (init mode destNil panicky scripts) sched).threads[t]? = some th)
    (hc : th.cur = some c) (hh : th.ctl.head = .stmt .recv) : ∃ f, c = .wait f := by
  have hx := xinv_reachable mode destNil panicky scripts sched
  have hne : th.ctl.stack ≠ [] := head_stack_ne hh
  obtain ⟨c', hc', _, h3⟩ := add_call_of_head hx.k.closed ht hne (Or.inr (Or.inr hh))
  rw [hc] at hc'
  obtain rfl := Option.some.inj hc'
  rcases h3 with rfl | rfl
  · -- an Add call has no receive
    exfalso
    have hrm := hx.k.closed.busy t th _ ht hc
    have : (reachM .snAdd).all (fun c => match c.head with | .stmt .recv => false | _ => true) = true := by decide +kernel
    have := localM this hrm
    simp [hh] at this
  · exact ⟨_, rfl⟩

/-- witness for the excluded case: a teardown that re-enters Add on its own, already disposed,
    subscription. The teardown's body is inlined where `runNow` stands (it runs under `subMu`):
    after Unsubscribe, the Add blocks for ever on the lock its own thread holds. -/
def reentrantTable : List (Meth × Prog) :=
  Expected.table.map fun (m, p) =>
    if m == .snAdd then (m, [.ifNil .teardown [.ret] [], .lock .subMu, .deferUnlock .subMu,
      .ifFld .done 1 [.callSelf .snAdd] [.appendFinalizer]]) else (m, p)

theorem reentrant_teardown_deadlock_witness :
    let s := runRounds (lookup reentrantTable) [0] 100 (init .safe false [] [[.unsubscribe, .add 1]])
    step (lookup reentrantTable) s 0 = none ∧ s.sh.subMu = some 0 ∧
      (s.threads.map fun th => (th.ctl.stack.length, th.cur)) = [(2, some (.add 1))] := by
  decide +kernel

/-! ### non-vacuity -/

-- thread 1 unsubscribes while thread 0 is between calls; thread 0's later Next is dropped, IsClosed says true
def demo : St := run Expected.progs (init .safe false [] [[.next 1, .next 2, .isClosed], [.unsubscribe]])
  [0, 0, 0, 0, 0, 0, 0, 0, 0, 1, 1, 1, 1, 1, 1, 1, 1, 1, 1, 1, 1, 1, 1]
example : closedLog demo.sh.log = true := by decide +kernel
example : (demo.threads.map fun th => (th.ctl.stack.isEmpty, th.cur)) = [(true, none), (true, none)] := by decide +kernel
example : (run Expected.progs demo [0, 0, 0, 0, 0, 0, 0, 0, 0, 0, 0, 0, 0]).sh.log.drop demo.sh.log.length =
    [.call 0 (.next 2), .drop 0 .next 2, .ret 0 (.next 2) .unit, .call 0 .isClosed, .ret 0 .isClosed (.bool true)] := by
  decide +kernel
-- a Next that passed its status test before the Unsubscribe still delivers (allowed: its call began earlier)
example : begins (run Expected.progs (init .safe false [] [[.next 1], [.unsubscribe]])
    [0, 0, 0, 0, 0, 1, 1, 1, 1, 1, 1, 1, 1, 1, 1, 1, 1, 1, 1, 0, 0, 0, 0]).sh.log = [.next {} 1] := by decide +kernel

-- `done` after a Complete that ended the stream by itself; the waiter returned afterwards (log order: e0:C before r1:W)
example : (runRounds Expected.progs [0, 1] 100 (init .safe false [] [[.next 1, .complete], [.wait 9]])).sh.log.filter
    (fun e => match e with | .cbEnd _ .complete _ | .ret _ (.wait _) _ => true | _ => false)
    = [.cbEnd 0 .complete 0, .ret 1 (.wait 9) .unit] := by decide +kernel
-- the second alternative of `kernel_no_deadlock` is real: a Wait that nobody closes stays at its receive
example : let s := runRounds Expected.progs [0, 1] 100 (init .safe false [] [[.next 1], [.wait 9]])
    step Expected.progs s 0 = none ∧ step Expected.progs s 1 = none ∧
      (s.threads.map fun th => th.ctl.stack.length) = [0, 1] ∧ s.sh.done = false := by decide +kernel

end Ro.C06

#print axioms Ro.KernelTie.progs_are_the_source
#print axioms Ro.KernelTie.collect_wrapper_is_the_source
#print axioms Ro.KernelTie.subscribe_wrapper_is_the_source
#print axioms Ro.C06.kernel_status_monotone
#print axioms Ro.C06.kernel_closed_after_return
#print axioms Ro.C06.kernel_unsubscribe_cuts
#print axioms Ro.C06.kernel_cut_not_armed
#print axioms Ro.C06.kernel_unsubscribe_never_takes_mu
#print axioms Ro.C06.kernel_unsubscribe_ctl
#print axioms Ro.C06.kernel_wait_returns_when_done
#print axioms Ro.C06.kernel_cutLog
#print axioms Ro.C06.kernel_isClosedLog
#print axioms Ro.C06.kernel_waitLog
#print axioms Ro.C06.kernel_terminal_end_before_done
#print axioms Ro.C06.kernel_wait_after_terminal_end
#print axioms Ro.C06.kernel_disabled_thread
#print axioms Ro.C06.kernel_no_deadlock
#print axioms Ro.C06.kernel_only_wait_waits
#print axioms Ro.C06.reentrant_teardown_deadlock_witness
#print axioms Ro.C06.kernel_done_before_run

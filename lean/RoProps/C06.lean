/-
  C06 (kernel part) — Unsubscribe cuts delivery; IsClosed and Wait tell the truth.

  In the concurrent kernel (`Kernel.Conc` running the programs of subscriberImpl / subscriptionImpl,
  tied to the Go sources by RoProps/KernelTie.lean), every mode, any threads, scripts, schedule:

  * `status` is monotone: once non-zero it never changes again;
  * after the return event of any closing call (Unsubscribe — successful or not —, Error, Complete)
    `status ≠ 0`;
  * from such a state on, a thread that has not already passed its status test (in particular every
    thread that is between two calls, i.e. every call that *starts* later) never reaches
    callback-begin, under every continuation of the schedule; and its IsClosed calls return true;
    a Next that had loaded status = 0 *before* may still deliver — its call began earlier, which the
    property allows (DESIGN-kernel.md §1 consequence (b));
  * Unsubscribe takes neither `mu` nor blocks on it (its program is one CAS and
    Subscription.Unsubscribe), so it can be called from inside a callback: `kernel_unsubscribe_never_takes_mu`;
  * Wait returns only in states where `done` holds and its own signalling finalizer has run.
-/
import RoProofs.Kernel.Cut
import RoProps.KernelTie
namespace Ro.C06
open Ro.Kernel

/-- C06: `status` is monotone -/
theorem kernel_status_monotone (mode : Mode) (destNil : Bool) (panicky : List FinId)
    (scripts : List (List ApiCall)) (sched : List Tid) (t : Tid) (s' : St)
    (h : step Expected.progs (run Expected.progs (init mode destNil panicky scripts) sched) t = some s')
    (hs : (run Expected.progs (init mode destNil panicky scripts) sched).sh.status ≠ 0) :
    s'.sh.status = (run Expected.progs (init mode destNil panicky scripts) sched).sh.status :=
  status_mono (kinv_reachable mode destNil panicky scripts sched).lock h hs

/-- C06: once a closing call has returned (its `ret` event is in the log), `status ≠ 0` -/
theorem kernel_closed_after_return (mode : Mode) (destNil : Bool) (panicky : List FinId)
    (scripts : List (List ApiCall)) (sched : List Tid)
    (hc : closedLog (run Expected.progs (init mode destNil panicky scripts) sched).sh.log = true) :
    (run Expected.progs (init mode destNil panicky scripts) sched).sh.status ≠ 0 :=
  (kinv_reachable mode destNil panicky scripts sched).closed.closed hc

/-- C06: after the return of a closing call, a thread that is between two calls (so all its calls
    start later) never reaches callback-begin, and every IsClosed it issues answers true — for every
    continuation `sched2` of the schedule. `evs` are the events logged during the continuation. -/
theorem kernel_unsubscribe_cuts (mode : Mode) (destNil : Bool) (panicky : List FinId)
    (scripts : List (List ApiCall)) (sched1 sched2 : List Tid) (u : Tid) (thu : Thread)
    (hc : closedLog (run Expected.progs (init mode destNil panicky scripts) sched1).sh.log = true)
    (hu : (run Expected.progs (init mode destNil panicky scripts) sched1).threads[u]? = some thu)
    (hidle : thu.ctl.stack = []) (hcur : thu.cur = none) :
    ∃ evs, (run Expected.progs (init mode destNil panicky scripts) (sched1 ++ sched2)).sh.log =
        (run Expected.progs (init mode destNil panicky scripts) sched1).sh.log ++ evs ∧
      (∀ e ∈ evs, ∀ k x, e ≠ .cbBegin u k x) ∧ (∀ e ∈ evs, ∀ r, e = .ret u .isClosed r → r = .bool true) := by
  have hk := kinv_reachable mode destNil panicky scripts sched1
  have ha : After (run Expected.progs (init mode destNil panicky scripts) sched1).sh thu :=
    after_of_closed hk hc (idle_not_armed hidle) (by rw [hcur]; simp)
  obtain ⟨_, _, _, evs, hl, he⟩ := after_run sched2 hk hu ha
  rw [run_append]
  refine ⟨evs, hl, ?_, ?_⟩
  · intro e hm k x hx
    exact (he e hm).1 ⟨by rw [hx]; rfl, by rw [hx]; rfl⟩
  · intro e hm r hr
    exact (he e hm).2 r hr

/-- the general form: any thread that is not armed at that moment — it may be in the middle of a
    Next / Error / Complete, before its status test (the hypothesis excludes only a thread that is
    inside an IsClosed call, which never calls the destination anyway) -/
theorem kernel_cut_not_armed (mode : Mode) (destNil : Bool) (panicky : List FinId)
    (scripts : List (List ApiCall)) (sched1 sched2 : List Tid) (u : Tid) (thu : Thread)
    (hs : (run Expected.progs (init mode destNil panicky scripts) sched1).sh.status ≠ 0)
    (hu : (run Expected.progs (init mode destNil panicky scripts) sched1).threads[u]? = some thu)
    (hq : thu.ctl.armed = none) (hic : thu.cur ≠ some .isClosed) :
    ∃ evs, (run Expected.progs (init mode destNil panicky scripts) (sched1 ++ sched2)).sh.log =
        (run Expected.progs (init mode destNil panicky scripts) sched1).sh.log ++ evs ∧
      ∀ e ∈ evs, ∀ k x, e ≠ .cbBegin u k x := by
  have hk := kinv_reachable mode destNil panicky scripts sched1
  have ha : After (run Expected.progs (init mode destNil panicky scripts) sched1).sh thu :=
    ⟨hs, hq, fun h => absurd h hic⟩
  obtain ⟨_, _, _, evs, hl, he⟩ := after_run sched2 hk hu ha
  rw [run_append]
  exact ⟨evs, hl, fun e hm k x hx => (he e hm).1 ⟨by rw [hx]; rfl, by rw [hx]; rfl⟩⟩

/-- C06: Unsubscribe never touches `mu` (so it cannot deadlock with the callback it is called from):
    no control state of an Unsubscribe call holds `mu` or is about to acquire it -/
theorem kernel_unsubscribe_never_takes_mu :
    (reachM .subUnsubscribe).all (fun c => !c.holds .mu &&
      (match c.head with | .stmt (.lock .mu) | .stmt (.tryLock .mu _ _) | .stmt (.unlock .mu) => false | _ => true)) = true := by
  decide +kernel

/-- … and every thread executing an Unsubscribe call is in one of those control states -/
theorem kernel_unsubscribe_ctl (mode : Mode) (destNil : Bool) (panicky : List FinId)
    (scripts : List (List ApiCall)) (sched : List Tid) (t : Tid) (th : Thread)
    (ht : (run Expected.progs (init mode destNil panicky scripts) sched).threads[t]? = some th)
    (hc : th.cur = some .unsubscribe) : th.ctl ∈ reachM .subUnsubscribe :=
  (kinv_reachable mode destNil panicky scripts sched).closed.busy t th _ ht hc

/-- C06: a Wait call returns only when its own finalizer has run and `done` holds -/
theorem kernel_wait_returns_when_done (mode : Mode) (destNil : Bool) (panicky : List FinId)
    (scripts : List (List ApiCall)) (sched : List Tid) (t u : Tid) (f : FinId) (r : Res) (s' : St)
    (h : step Expected.progs (run Expected.progs (init mode destNil panicky scripts) sched) t = some s')
    (hlog : Logs (run Expected.progs (init mode destNil panicky scripts) sched) s' (.ret u (.wait f) r)) :
    f ∈ (run Expected.progs (init mode destNil panicky scripts) sched).sh.ran ∧
    (run Expected.progs (init mode destNil panicky scripts) sched).sh.done = true :=
  wait_returns_when_done (kinv_reachable mode destNil panicky scripts sched) h hlog

/-- C06: `done` implies `status ≠ 0` is NOT claimed the other way round: a failed Unsubscribe CAS may
    return before the winner has set `done`; what holds is: whenever anything ran, `done` is set -/
theorem kernel_done_before_run (mode : Mode) (destNil : Bool) (panicky : List FinId)
    (scripts : List (List ApiCall)) (sched : List Tid)
    (h : (run Expected.progs (init mode destNil panicky scripts) sched).sh.ran ≠ []) :
    (run Expected.progs (init mode destNil panicky scripts) sched).sh.done = true :=
  (kinv_reachable mode destNil panicky scripts sched).tear.ranDone h

/-! ### non-vacuity -/

-- thread 1 unsubscribes while thread 0 is between calls; thread 0's later Next is dropped, IsClosed says true
def demo : St := run Expected.progs (init .safe false [] [[.next 1, .next 2, .isClosed], [.unsubscribe]])
  [0, 0, 0, 0, 0, 0, 0, 0, 0, 1, 1, 1, 1, 1, 1, 1, 1, 1, 1, 1, 1, 1, 1]
example : closedLog demo.sh.log = true := by decide +kernel
example : (demo.threads.map fun th => (th.ctl.stack.isEmpty, th.cur)) = [(true, none), (true, none)] := by decide +kernel
example : (run Expected.progs demo [0, 0, 0, 0, 0, 0, 0, 0, 0, 0, 0, 0, 0]).sh.log.drop demo.sh.log.length =
    [.call 0 (.next 2), .drop 0 .next 2, .ret 0 (.next 2) .unit, .call 0 .isClosed, .ret 0 .isClosed (.bool true)] := by
  decide +kernel
-- a Next that passed its status test before the Unsubscribe still delivers (allowed: its call began earlier)
example : begins (run Expected.progs (init .safe false [] [[.next 1], [.unsubscribe]])
    [0, 0, 0, 0, 0, 1, 1, 1, 1, 1, 1, 1, 1, 1, 1, 1, 1, 1, 1, 0, 0, 0, 0]).sh.log = [.next {} 1] := by decide +kernel

end Ro.C06

#print axioms Ro.KernelTie.progs_are_the_source
#print axioms Ro.C06.kernel_status_monotone
#print axioms Ro.C06.kernel_closed_after_return
#print axioms Ro.C06.kernel_unsubscribe_cuts
#print axioms Ro.C06.kernel_cut_not_armed
#print axioms Ro.C06.kernel_unsubscribe_never_takes_mu
#print axioms Ro.C06.kernel_unsubscribe_ctl
#print axioms Ro.C06.kernel_wait_returns_when_done
#print axioms Ro.C06.kernel_done_before_run

/-
  C05 / C04 (the numbered arities treat every source position alike).

  ZipWith1..5, CombineLatestWith1..4, MergeWith1..5 and their creation forms are written out per source position
  (valueA / valueB / …, completedA / …, one subscription block and one clause of the completion test per source).
  `go/extract/symmetry.go` cuts every such function into its maximal single-position units and normalises the
  position away; `symmetric_families` — decided by the kernel on the rows regenerated from the repository under
  check on this run — says that every unit occurs equally often for every position (or only for the piped
  source). It is a syntactic NECESSARY condition for "the operator's definition is applied to each source alike",
  not a proof of the operator: what the operator computes for every arrival order is C05's machine = specification
  theorems (stated for the arities the hand-written machines cover) and the correspondence over every arity and
  position (positional stories of kind=multib). What the table adds is universality over the places a per-position
  copy can go wrong: a flag, queue or subscription of the neighbouring position in ONE clause of ONE arity, or two
  statements swapped in one callback, changes a row — also where no sampled interleaving reaches it (a stale read
  that needs two goroutines).
-/
import RoModel.SymFacts
import RoGen.Symmetry
namespace Ro.C05sym
open Ro.SymFacts

theorem uniform_length (n k : Nat) : (uniform n k).length = n * k := by
  unfold uniform
  induction n with
  | zero => simp
  | succ m ih => simp [List.range_succ, List.flatMap_append, ih, Nat.add_mul]

/-- in a regular row every position occurs exactly `k` times -/
theorem uniform_count (n k p : Nat) (hp : p < n) : (uniform n k).count p = k := by
  unfold uniform
  induction n with
  | zero => omega
  | succ m ih =>
    rw [List.range_succ, List.flatMap_append, List.count_append]
    by_cases h : p < m
    · rw [ih h]
      have hne : ¬ m = p := by omega
      simp [List.count_replicate, hne]
    · have hpm : p = m := by omega
      subst hpm
      have : (List.flatMap (fun q => List.replicate k q) (List.range p)).count p = 0 := by
        rw [List.count_eq_zero]
        intro hm
        rw [List.mem_flatMap] at hm
        obtain ⟨q, hq, hq2⟩ := hm
        rw [List.mem_replicate] at hq2
        rw [List.mem_range] at hq
        omega
      rw [this]
      simp [List.count_replicate]

/-- decided by the kernel on the rows regenerated on this run -/
theorem symmetric_families : (irregular RoGen.Symmetry.rows).isEmpty = true := by decide +kernel

/-- the analysis saw the families it is about (a translator that stops recognising them would make the
    statement vacuous) -/
theorem families_seen :
    ["ZipWith1", "ZipWith2", "ZipWith3", "ZipWith4", "ZipWith5", "CombineLatestWith1", "CombineLatestWith2",
     "CombineLatestWith3", "CombineLatestWith4"].all
      (fun f => decide (10 ≤ (RoGen.Symmetry.rows.filter (fun r => r.fn == f)).length) ||
                decide (6 ≤ (RoGen.Symmetry.rows.filter (fun r => r.fn == f)).length)) = true := by decide +kernel

/-- non-vacuity: the row the slip of seeded C05-D produces (`len(valueC) == 0` in the clause of position D of the
    4-source zip) is rejected -/
example : rowOk { fn := "ZipWith3", n := 4, letters := [0, 1, 2, 2], unit := "len(value#) == 0" } = false := by decide
example : rowOk { fn := "ZipWith3", n := 4, letters := [0, 1, 2, 3], unit := "len(value#) == 0" } = true := by decide
example : rowOk { fn := "ZipWith3", n := 4, letters := [0], unit := "Observable[#]" } = true := by decide

end Ro.C05sym

#print axioms Ro.C05sym.uniform_length
#print axioms Ro.C05sym.uniform_count
#print axioms Ro.C05sym.symmetric_families
#print axioms Ro.C05sym.families_seen

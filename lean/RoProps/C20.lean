/-
  C20 — rate limiters never exceed the quota and keep per-key order.

  Native limiter (`plugins/ratelimit/native/operator.go:27-41`), logical time, for every timeline of
  items and per-key ticks, every quota `n`, every tick placement:
    * `native_perKey`      per key, the output is the first `n` items of each window, in order
                           (= GroupBy's substream, cut at the key's ticks, `Take n` of each window, merged);
    * `native_window_quota` never more than `n` of one window;
    * `native_order`       the output is a subsequence of the source's items (order, no duplication),
      `native_nodup`       and has no duplicate if the source's items are distinct;
    * `native_independent` what passes of a key depends on that key's items and ticks only;
    * `native_complete`, `native_error`  the source's completion / error is propagated after the items
                           under EVERY schedule, including the ticks that are served while the terminal of the
                           source is being processed: `native_sched` (nativeSched n tl e late = native n tl e for every
                           `late`), `native_sched_complete`, `native_sched_error`. (Before /repo a396a6b a tick between
                           WindowWhen closing its last window and completing its destination lost the completion; the
                           harness still drives those schedules, `latetick=all`, and `late_tick_regression` pins the case.)
    * `native_quota_span`  arithmetic corollary: whatever the alignment of the window grid, in every span
                           of length `L` at most n·(⌊L/w⌋+2) items of one key pass
                           (`span_meets_windows`: the span meets at most ⌊L/w⌋+2 windows).
  ulule limiter (`plugins/ratelimit/ulule/operator.go:25-49`), for every store oracle:
    * `ulule_filter`       output = the input filtered by the store's answers (store not failing), then the ending;
    * `ulule_shape`        always: a subsequence of the input followed by the source's ending, or by the
                           store's failure as the error; `ulule_by_answers`: a function of the recorded answers.
  Real-time tie: `acceptor_sound` — a trace accepted by the executable acceptor satisfies the clauses
  of the property that an observation can witness (order per key, quota bound on EVERY span, first-window
  items of every key passed, terminal).
  Composition fact (F): `RoGen.RateLimit.nativeBody` is regenerated from native/operator.go on every run;
  `native_composition` decides that it is the composition the model is written after.
-/
import RoProofs.RateLimit
import RoProofs.RateLimitTime
import RoProofs.RateLimitUlule
import RoProofs.RateLimitAccept
import RoGen.RateLimit
namespace Ro.C20
open Ro Ro.RateLimit

variable {κ α : Type} [DecidableEq κ]

theorem native_perKey (n : Nat) (k : κ) (tl : List (Ev κ α)) :
    ((run n tl).filter (fun p => p.1 = k)).map (·.2) = ((windows (group k tl)).map (List.take n)).flatten :=
  run_perKey n k tl

omit [DecidableEq κ] in
theorem native_machine_is_composition (n : Nat) (g : List (GEv α)) :
    winRun n 0 g = mergeAll (takeEach n (windows g)) := winRun_eq_pipeline n g

omit [DecidableEq κ] in
theorem native_window_quota (n : Nat) (g : List (GEv α)) : ∀ w ∈ takeEach n (windows g), w.length ≤ n :=
  window_quota n g

theorem native_order (n : Nat) (tl : List (Ev κ α)) : (run n tl).Sublist (items tl) := run_sublist n tl

theorem native_order_key (n : Nat) (k : κ) (tl : List (Ev κ α)) :
    (((run n tl).filter (fun p => p.1 = k)).map (·.2)).Sublist (((items tl).filter (fun p => p.1 = k)).map (·.2)) :=
  run_key_sublist n k tl

theorem native_nodup (n : Nat) (tl : List (Ev κ α)) (h : (items tl).Nodup) : (run n tl).Nodup := run_nodup n tl h

theorem native_independent (n : Nat) (k : κ) (tl tl' : List (Ev κ α)) (h : group k tl = group k tl') :
    (run n tl).filter (fun p => p.1 = k) = (run n tl').filter (fun p => p.1 = k) := keys_independent n k tl tl' h

theorem native_complete (n : Nat) (tl : List (Ev κ α)) :
    native n tl .complete = (run n tl).map (fun p => Out.item p.1 p.2) ++ [.complete] := RateLimit.native_complete n tl

theorem native_error (n : Nat) (tl : List (Ev κ α)) (x : Err) :
    native n tl (.error x) = (run n tl).map (fun p => Out.item p.1 p.2) ++ [.error x] := RateLimit.native_error n tl x

theorem native_sched (n : Nat) (tl : List (Ev κ α)) (e : End) (late : List κ) :
    nativeSched n tl e late = native n tl e := nativeSched_eq n tl e late

theorem native_sched_complete (n : Nat) (tl : List (Ev κ α)) (late : List κ) :
    nativeSched n tl .complete late = (run n tl).map (fun p => Out.item p.1 p.2) ++ [.complete] :=
  nativeSched_complete n tl late

theorem native_sched_error (n : Nat) (tl : List (Ev κ α)) (x : Err) (late : List κ) :
    nativeSched n tl (.error x) late = (run n tl).map (fun p => Out.item p.1 p.2) ++ [.error x] :=
  nativeSched_error n tl x late

/-- the former witness of the lost completion (quota 2, one item of key 0, key 0's ticker fires
    inside the completion), now with its Complete; replayed by the `latetick=all` cases -/
theorem late_tick_regression :
    nativeSched 2 [Ev.item 0 1] .complete [0] = [Out.item 0 (1 : Nat), .complete] := by decide

theorem span_meets_windows (w o a L : Nat) (hw : 0 < w) : widx w o (a + L) + 1 ≤ widx w o a + (L / w + 2) :=
  span_windows w o a L hw

theorem native_quota_span (n w o : Nat) (hw : 0 < w) (tl : List (Ev κ (Nat × α))) (k : κ) (j : Nat)
    (hc : Consistent w o j (group k tl)) (a L : Nat) :
    ((((run n tl).filter (fun p => p.1 = k)).map (·.2)).filter (fun p => a ≤ p.1 && p.1 ≤ a + L)).length ≤ n * (L / w + 2) :=
  quota_span n w o hw tl k j hc a L

omit [DecidableEq κ] in
theorem ulule_filter (store : Store κ) (sync : Bool) (inp : List (κ × α)) (e : End)
    (hok : ∀ a ∈ answers store sync inp, ∃ b, a = Ans.ok b) :
    ulule store inp e =
      (((inp.zip (answers store sync inp)).filter (fun p => p.2 = Ans.ok false)).map (fun p => Out.item p.1.1 p.1.2)) ++ e.toOut :=
  RateLimit.ulule_filter store sync inp e [] hok

omit [DecidableEq κ] in
theorem ulule_shape (store : Store κ) (inp : List (κ × α)) (e : End) :
    ∃ pre : List (κ × α), pre.Sublist inp ∧
      (ulule store inp e = pre.map (fun p => Out.item p.1 p.2) ++ e.toOut ∨
       ∃ x, ulule store inp e = pre.map (fun p => Out.item p.1 p.2) ++ [.error x]) :=
  RateLimit.ulule_shape store inp e []

omit [DecidableEq κ] in
theorem ulule_by_answers (store : Store κ) (sync : Bool) (inp : List (κ × α)) (e : End) :
    ulule store inp e = byAnswers inp (answers store sync inp) e := ulule_byAnswers store sync inp e []

theorem acceptor_sound [DecidableEq α] (c : Cfg) (inp : List (InItem κ α)) (e : End) (obs : List (ObsItem κ α)) (term : End)
    (h : accepts c inp e obs term = true) : Clauses c inp e obs term := accepts_sound c inp e obs term h

/-- (F) the body of `NewRateLimiter` in the tree under check IS the composition the model is written
    after: `Pipe2(source, GroupBy(keyGetter), MergeMap(PipeOp3(WindowWhen[T](Interval(interval)),
    Map(Take[T](count)), MergeAll[T]())))` over the core package — `group`, `windowWhen` with the
    key's own ticker, `takeEach count`, `mergeAll`, merged in place. Regenerated on every run. -/
theorem native_composition :
    RoGen.RateLimit.nativeShape = "return-func-return-expr"
    ∧ RoGen.RateLimit.nativeImports = ["time", "github.com/samber/ro"]
    ∧ RoGen.RateLimit.nativeParams = ["count int64", "interval time.Duration", "keyGetter func(T) string"]
    ∧ RoGen.RateLimit.nativeInnerParams = ["source ro.Observable[T]"]
    ∧ RoGen.RateLimit.nativeBody =
        [(0, "ro.Pipe2"), (1, "source"),
         (1, "ro.GroupBy"), (2, "keyGetter"),
         (1, "ro.MergeMap"), (2, "ro.PipeOp3"),
         (3, "ro.WindowWhen[T]"), (4, "ro.Interval"), (5, "interval"),
         (3, "ro.Map"), (4, "ro.Take[T]"), (5, "count"),
         (3, "ro.MergeAll[T]")] := by decide

/-! non-vacuity: two keys, quota 1; key 0's second item is cut, its third passes after key 0's tick;
    key 1 is untouched by key 0's traffic -/
example : native 1 [Ev.item 0 10, .item 0 11, .item 1 12, .tick 0, .item 0 13, .item 1 14] .complete
    = [Out.item 0 10, .item 1 12, .item 0 13, .complete] := by decide

example : native 2 [Ev.item 0 1, .item 0 2, .item 0 3, .tick 0, .item 0 4] (.error (.user 3))
    = [Out.item 0 1, .item 0 2, .item 0 4, .error (.user 3)] := by decide

example : perKey 1 0 [Ev.item 0 10, .item 0 11, .item 1 12, .tick 0, .item 0 13] = [10, 13] := by decide

/-- the bound is attained up to the "+2": quota 1, w = 10, three passes within a span of 11 -/
example : bound 1 10 0 11 = 3 := by decide

example : ulule (fun h k => Ans.ok (decide (2 ≤ (h.filter (· = k)).length))) [(0, 1), (0, 2), (0, 3), (1, 4)] .complete
    = [Out.item 0 1, .item 0 2, .item 1 4, .complete] := by decide

/-- the acceptor rejects a trace with three passes of one key (quota 1, w = 1000 µs) inside 300 µs … -/
example : accepts { n := 1, w := 1000 } [⟨0, 1, 0, 1⟩, ⟨0, 2, 100, 101⟩, ⟨0, 3, 300, 301⟩] .complete
    [⟨0, 1, 1⟩, ⟨0, 2, 101⟩, ⟨0, 3, 301⟩] .complete = false := by decide

/-- … and accepts the model's own trace of that input (first item only) -/
example : accepts { n := 1, w := 1000 } [⟨0, 1, 0, 1⟩, ⟨0, 2, 100, 101⟩, ⟨0, 3, 300, 301⟩] .complete
    [⟨0, 1, 1⟩] .complete = true := by decide

end Ro.C20

#print axioms Ro.C20.native_perKey
#print axioms Ro.C20.native_machine_is_composition
#print axioms Ro.C20.native_window_quota
#print axioms Ro.C20.native_order
#print axioms Ro.C20.native_order_key
#print axioms Ro.C20.native_nodup
#print axioms Ro.C20.native_independent
#print axioms Ro.C20.native_complete
#print axioms Ro.C20.native_error
#print axioms Ro.C20.native_sched
#print axioms Ro.C20.native_sched_complete
#print axioms Ro.C20.native_sched_error
#print axioms Ro.C20.late_tick_regression
#print axioms Ro.C20.native_composition
#print axioms Ro.C20.span_meets_windows
#print axioms Ro.C20.native_quota_span
#print axioms Ro.C20.ulule_filter
#print axioms Ro.C20.ulule_shape
#print axioms Ro.C20.ulule_by_answers
#print axioms Ro.C20.acceptor_sound

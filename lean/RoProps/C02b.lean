/-
  C02 (b) — serialized delivery through chains: every stage that can be fed from several goroutines
  emits into a locking subscriber, whatever follows it in the pipe.
  Proved for arbitrary chains of rows satisfying the row predicate; the predicate is decided by the
  kernel on the table regenerated from /repo's source on every run.
  Pinned tree: five pass-through operators are built with the unsafe constructor
  (`knownUnsafePassThrough`); directly downstream of a multi-feeder stage they make that stage emit
  into a non-locking subscriber — witness below, replayed on the real code by the check
  (`Merge |> TapOnFinalize`, callbacks overlap).
-/
import RoProofs.Chain
import RoGen.Catalogue
namespace Ro.C02b
open Ro.Facts

/-- the tie: every row of the regenerated table is fine or a listed known deviation -/
theorem table_ok : RoGen.Catalogue.table.all c02RowOk = true := by decide

/-- the rows that violate the strict predicate are exactly the listed ones -/
theorem strict_violations :
    (RoGen.Catalogue.table.filter (fun r => !c02RowStrict r)).map (·.name) = knownUnsafePassThrough := by decide

/-- full statement (holds for any tree whose table satisfies the strict predicate) -/
theorem chain_serialized (r : OpFact) (rest : List OpFact)
    (hr : c02RowStrict r = true) (hrest : ∀ q ∈ rest, c02RowStrict q = true) (hm : r.multiFeeder = true) :
    ∃ c, emitMode (r :: rest) = some c ∧ serializedMode c = true :=
  multiFeeder_emits_serialized r rest hr hrest hm

/-- what is proved for the pinned tree: chains that avoid the listed unsafe pass-throughs -/
theorem chain_serialized_partial (r : OpFact) (rest : List OpFact)
    (hr : r ∈ RoGen.Catalogue.table) (hrest : ∀ q ∈ rest, q ∈ RoGen.Catalogue.table)
    (hkr : knownUnsafePassThrough.contains r.name = false)
    (hkrest : ∀ q ∈ rest, knownUnsafePassThrough.contains q.name = false)
    (hm : r.multiFeeder = true) :
    ∃ c, emitMode (r :: rest) = some c ∧ serializedMode c = true := by
  have hall := List.all_eq_true.mp table_ok
  exact multiFeeder_emits_serialized_partial r rest (hall r hr) (fun q hq => hall q (hrest q hq)) hkr hkrest hm

def row (n : String) : Option OpFact := RoGen.Catalogue.table.find? (·.name == n)

/-- witness of the deviation: `MergeAll |> TapOnFinalize` — MergeAll is multi-feeder and emits into
    TapOnFinalize's unsafe subscriber -/
theorem unsafe_passthrough_witness :
    (do let a ← row "MergeAll"; let b ← row "TapOnFinalize"; pure (a.multiFeeder, emitMode [a, b]))
      = some (true, some Ctor.unsafeC) := by decide

-- non-vacuity: a real multi-feeder chain that is covered
example : (do let a ← row "MergeAll"; let b ← row "MapIWithContext"; pure (a.multiFeeder, emitMode [a, b]))
    = some (true, some Ctor.safeC) := by decide

end Ro.C02b

#print axioms Ro.C02b.table_ok
#print axioms Ro.C02b.strict_violations
#print axioms Ro.C02b.chain_serialized
#print axioms Ro.C02b.chain_serialized_partial
#print axioms Ro.C02b.unsafe_passthrough_witness

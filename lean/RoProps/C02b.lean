/-
  C02 (b) — serialized delivery through chains: every stage that can be fed from several goroutines
  emits into a locking subscriber, whatever follows it in the pipe.
  Proved for arbitrary chains of rows satisfying the row predicate; the predicate is decided by the
  kernel on the table regenerated from /repo's source on every run.
  Pinned tree: five pass-through operators were built with the unsafe constructor; directly
  downstream of a multi-feeder stage they made that stage emit into a non-locking subscriber
  (`Merge |> TapOnFinalize`: callbacks overlapped; with `Distinct` downstream the process aborted
  with "concurrent map writes"). Repaired in /repo (fix: pass-through operators use the safe
  constructor); the strict predicate now holds for every row.
-/
import RoProofs.Chain
import RoGen.Catalogue
import RoGen.Ctors
namespace Ro.C02b
open Ro.Facts

/-- the tie: every row of the regenerated table is fine or a listed known deviation -/
theorem table_ok : RoGen.Catalogue.table.all c02RowOk = true := by decide

/-- every row of the regenerated table satisfies the STRICT predicate: every multi-feeder operator
    and every pass-through operator is built with a locking constructor -/
theorem table_strict : RoGen.Catalogue.table.all c02RowStrict = true := by decide

/-- full statement (holds for any tree whose table satisfies the strict predicate) -/
theorem chain_serialized (r : OpFact) (rest : List OpFact)
    (hr : c02RowStrict r = true) (hrest : ∀ q ∈ rest, c02RowStrict q = true) (hm : r.multiFeeder = true) :
    ∃ c, emitMode (r :: rest) = some c ∧ serializedMode c = true :=
  multiFeeder_emits_serialized r rest hr hrest hm

/-- C02 (b) for the tree under check: every chain of catalogue operators, every stage that can be
    fed from several goroutines, whatever follows it -/
theorem chain_serialized_table (r : OpFact) (rest : List OpFact)
    (hr : r ∈ RoGen.Catalogue.table) (hrest : ∀ q ∈ rest, q ∈ RoGen.Catalogue.table)
    (hm : r.multiFeeder = true) :
    ∃ c, emitMode (r :: rest) = some c ∧ serializedMode c = true := by
  have hall := List.all_eq_true.mp table_strict
  exact multiFeeder_emits_serialized r rest (hall r hr) (fun q hq => hall q (hrest q hq)) hm

def row (n : String) : Option OpFact := RoGen.Catalogue.table.find? (·.name == n)

/-- regression example: `MergeAll |> TapOnFinalize` — MergeAll is multi-feeder and now emits into
    TapOnFinalize's LOCKING subscriber (it was the unsafe one before the repair) -/
theorem passthrough_regression :
    (do let a ← row "MergeAll"; let b ← row "TapOnFinalize"; pure (a.multiFeeder, emitMode [a, b]))
      = some (true, some Ctor.safeC) := by decide

-- non-vacuity: a real multi-feeder chain that is covered
example : (do let a ← row "MergeAll"; let b ← row "MapIWithContext"; pure (a.multiFeeder, emitMode [a, b]))
    = some (true, some Ctor.safeC) := by decide

/-! ### what "built with the default / safe constructor" means (regenerated from observable.go / subscriber.go, go/extract/ctors.go) -/

/-- every public constructor ends up with the concurrency mode its name says; the default ones (`NewObservable`,
    `NewObservableWithContext`, `NewSubscriber`) are the safe ones -/
theorem ctor_modes : RoGen.Ctors.ctorModes = [
    ("NewEventuallySafeObservable", "EventuallySafe"), ("NewEventuallySafeObservableWithContext", "EventuallySafe"),
    ("NewEventuallySafeSubscriber", "EventuallySafe"),
    ("NewObservable", "Safe"), ("NewObservableWithConcurrencyMode", "param"), ("NewObservableWithContext", "Safe"),
    ("NewSafeObservable", "Safe"), ("NewSafeObservableWithContext", "Safe"), ("NewSafeSubscriber", "Safe"), ("NewSubscriber", "Safe"),
    ("NewSubscriberWithConcurrencyMode", "param"),
    ("NewUnsafeObservable", "Unsafe"), ("NewUnsafeObservableWithContext", "Unsafe"), ("NewUnsafeSubscriber", "Unsafe")] := by decide

/-- safe = a real mutex and a blocking producer; unsafe = no lock; eventually-safe = a real mutex taken with TryLock, the value
    dropped when it is busy (the three modes of the kernel model, RoModel/Kernel/Conc.lean) -/
theorem mode_impl : RoGen.Ctors.modeImpl = [
    ("Safe", "NewMutexWithLock", "BackpressureBlock"), ("Unsafe", "NewMutexWithoutLock", "BackpressureBlock"),
    ("EventuallySafe", "NewMutexWithLock", "BackpressureDrop")] := by decide

/-- Outside the operator files (whose constructors are the Catalogue's `ctor` column, `table_ok`) the core builds observables and
    subscribers only here: the public constructors delegating to each other, `SubscribeWithContext` wrapping the destination in a
    subscriber of the observable's mode, the connectable observables through the default (safe) constructors, and every subject
    wrapping its subscriber with `NewSubscriber` (safe). A new site — a subject handing out an unsafe view of itself, a helper
    that builds an unsafe observable — is a new row. -/
theorem ctor_sites : RoGen.Ctors.ctorSites = [
    ("observable.go", "NewObservable", "NewSafeObservable"),
    ("observable.go", "NewSafeObservable", "NewObservableWithConcurrencyMode"),
    ("observable.go", "NewUnsafeObservable", "NewObservableWithConcurrencyMode"),
    ("observable.go", "NewEventuallySafeObservable", "NewObservableWithConcurrencyMode"),
    ("observable.go", "NewObservableWithContext", "NewSafeObservableWithContext"),
    ("observable.go", "NewSafeObservableWithContext", "NewObservableWithConcurrencyMode"),
    ("observable.go", "NewUnsafeObservableWithContext", "NewObservableWithConcurrencyMode"),
    ("observable.go", "NewEventuallySafeObservableWithContext", "NewObservableWithConcurrencyMode"),
    ("observable.go", "observableImpl.SubscribeWithContext", "NewSubscriberWithConcurrencyMode"),
    ("observable.go", "NewConnectableObservable", "NewObservable"),
    ("observable.go", "NewConnectableObservableWithContext", "NewObservableWithContext"),
    ("observable.go", "NewConnectableObservableWithConfig", "NewObservable"),
    ("observable.go", "NewConnectableObservableWithConfigAndContext", "NewObservableWithContext"),
    ("subject_async.go", "asyncSubjectImpl.SubscribeWithContext", "NewSubscriber"),
    ("subject_behavior.go", "behaviorSubjectImpl.SubscribeWithContext", "NewSubscriber"),
    ("subject_publish.go", "publishSubjectImpl.SubscribeWithContext", "NewSubscriber"),
    ("subject_replay.go", "replaySubjectImpl.SubscribeWithContext", "NewSubscriber"),
    ("subject_unicast.go", "unicastSubjectImpl.SubscribeWithContext", "NewSubscriber"),
    ("subscriber.go", "NewSubscriber", "NewSafeSubscriber"),
    ("subscriber.go", "NewSafeSubscriber", "NewSubscriberWithConcurrencyMode"),
    ("subscriber.go", "NewUnsafeSubscriber", "NewSubscriberWithConcurrencyMode"),
    ("subscriber.go", "NewEventuallySafeSubscriber", "NewSubscriberWithConcurrencyMode")] := by decide

end Ro.C02b

#print axioms Ro.C02b.ctor_sites
#print axioms Ro.C02b.table_ok
#print axioms Ro.C02b.ctor_modes
#print axioms Ro.C02b.mode_impl
#print axioms Ro.C02b.table_strict
#print axioms Ro.C02b.chain_serialized
#print axioms Ro.C02b.chain_serialized_table
#print axioms Ro.C02b.passthrough_regression

/-
  C11 — sharing keeps one upstream subscription and follows the reference count.

  Model: RoModel.Share (`ShareWithConfig`, operator_connectable.go:67-181, with minimal publish /
  behavior / replay subjects as connectors) and RoModel.Connectable (observable.go:501-567), tied to
  the real code by the `share` / `conn` correspondence kinds. Every theorem below is for EVERY
  configuration `cfg` (connector kind, the three reset flags, and what each upstream subscription
  plays synchronously inside `Subscribe`) and EVERY event sequence `evs` over
  {sub, unsub i, src Next / Error / Complete} **including events nested inside the source's
  `Subscribe`** (`NEvent.subNested inner`, depth one: `nrun`; plain sequences are the special case
  `plain_runs`) — by induction through the invariant `Ro.Share.Inv` (RoProofs/ShareBasic.lean), which
  carries a pending creator (`Pend`) between the inner events and is `Inv Pend.idle` between top-level
  events (ShareInv.lean, ShareSub.lean, ShareNested.lean) — resp. {sub, unsub i, src, connect,
  disconnect} for the connectable.

  History: the pinned tree re-read the shared `sourceSubscription` without `mu` at the end of R3 and
  dereferenced nil when a synchronous terminal had already reset it (DESIGN.md C07(iv)), leaking the
  subscriber's reference; fix commit a510ca9 uses the local `currentSourceSubscription`. The repaired
  behaviour is the model (`r3tail`); `nilDeref_regression` shows the model does not do that any more, and
  the correspondence reports the old behaviour as a difference if it returns.
  The one clause that is false under nesting is "nobody listens ⇒ released" (`ResetOnRefCountZero`):
  `released_when_unlistened_partial` holds on the nested sequences in which no other subscriber
  arrives inside the source's `Subscribe` (`NEvent.noInnerSub`, decidable; every plain sequence
  qualifies: `released_when_unlistened`); outside it, `lateRelease_witness` (open finding).
-/
import RoProofs.ShareRelease
import RoProofs.ConnectableProofs
namespace Ro.C11
open Ro.Share

/-! ## ShareWithConfig -/

/-- every reachable state satisfies the invariant the other theorems rest on -/
theorem share_invariant (cfg : Cfg) (evs : List NEvent) : Inv Pend.idle (nrun cfg evs) := inv_nrun cfg evs

/-- **at most one live upstream subscription, at any time** (after every prefix of every event
    sequence: `evs` is arbitrary) -/
theorem upstream_at_most_one (cfg : Cfg) (evs : List NEvent) : (nrun cfg evs).live ≤ 1 :=
  live_le_one_of_inv (inv_nrun cfg evs)

/-- … and it is live whenever somebody listens -/
theorem upstream_live_while_listened (cfg : Cfg) (evs : List NEvent) (h : openSubs (nrun cfg evs) ≠ []) :
    (nrun cfg evs).live = 1 := open_imp_live (inv_nrun cfg evs) h

/-- **refCount = number of live subscribers** — every configuration, every synchronous prefix,
    every event sequence -/
theorem refCount_eq (cfg : Cfg) (evs : List NEvent) :
    (nrun cfg evs).refCount = (openSubs (nrun cfg evs)).length := (inv_nrun cfg evs).count

/-- **upstream subscribed at 0→1, joined otherwise**: a new subscriber subscribes the source iff
    there is no current generation, and then exactly once -/
theorem subscribe_upstream_iff_no_generation (cfg : Cfg) (evs : List NEvent) :
    (step cfg (nrun cfg evs) .sub).total =
      if (nrun cfg evs).subject = none then (nrun cfg evs).total + 1 else (nrun cfg evs).total :=
  sub_total cfg (inv_nrun cfg evs)

/-- later subscribers join the running execution instead of restarting it -/
theorem later_subscribers_join (cfg : Cfg) (evs : List NEvent) (g : Nat) (h : (nrun cfg evs).subject = some g) :
    (step cfg (nrun cfg evs) .sub).live = (nrun cfg evs).live ∧ (step cfg (nrun cfg evs) .sub).subject = some g ∧
    (step cfg (nrun cfg evs) .sub).total = (nrun cfg evs).total := by
  have := sub_join_live cfg (inv_nrun cfg evs) h
  refine ⟨this.1, this.2, ?_⟩
  rw [subscribe_upstream_iff_no_generation, h]; simp

/-- … and what the joiner receives at once is what the connector hands out on subscription
    (nothing / the last value / the buffered values); nobody else's record changes -/
theorem joiner_receives_connector_replay (cfg : Cfg) (evs : List NEvent) (g : Nat)
    (h : (nrun cfg evs).subject = some g) (ha : GenActive Pend.idle (nrun cfg evs) g) :
    ((step cfg (nrun cfg evs) .sub).subs (nrun cfg evs).nsubs).trace = Spec.joined cfg.conn ((nrun cfg evs).gens g).subj ∧
    ((step cfg (nrun cfg evs) .sub).subs (nrun cfg evs).nsubs).status = 0 ∧
    (∀ k, k ≠ (nrun cfg evs).nsubs → (step cfg (nrun cfg evs) .sub).subs k = (nrun cfg evs).subs k) := by
  have := join_active_trace cfg (inv_nrun cfg evs) h ha
  exact ⟨this.1, this.2.1, this.2.2.1⟩

/-- **released at 1→0 iff ResetOnRefCountZero** (no terminal latched: a listener is open, so the
    generation is live): the last listener leaves ⇒ upstream released, shared pair cleared -/
theorem last_unsubscribe_releases (cfg : Cfg) (evs : List NEvent) (i : Nat)
    (hz : cfg.flags.onZero = true) (ho : openSubs (nrun cfg evs) = [i]) :
    (step cfg (nrun cfg evs) (.unsub i)).live = 0 ∧ (step cfg (nrun cfg evs) (.unsub i)).subject = none :=
  unsub_last_releases cfg (inv_nrun cfg evs) hz ho

/-- … and without `ResetOnRefCountZero`, or while another listener stays, `unsub` never touches
    the upstream subscription -/
theorem unsubscribe_keeps_upstream (cfg : Cfg) (evs : List NEvent) (i : Nat)
    (h : cfg.flags.onZero = false ∨ 2 ≤ (openSubs (nrun cfg evs)).length) :
    (step cfg (nrun cfg evs) (.unsub i)).live = (nrun cfg evs).live ∧
    (step cfg (nrun cfg evs) (.unsub i)).total = (nrun cfg evs).total ∧
    (step cfg (nrun cfg evs) (.unsub i)).subject = (nrun cfg evs).subject :=
  unsub_keeps cfg i (inv_nrun cfg evs) h

/-- **after the source terminates**: nobody stays open, the upstream subscription is gone; the shared
    pair is cleared iff the flags reset on that terminal (so the next subscriber starts a fresh
    execution, `subscribe_upstream_iff_no_generation`), otherwise the generation is latched with the
    terminal stored -/
theorem after_source_terminal (cfg : Cfg) (evs : List NEvent) (g : Nat) (t : Ev) (ht : t.isTerminal = true)
    (h : (nrun cfg evs).subject = some g) (ha : GenActive Pend.idle (nrun cfg evs) g) :
    (step cfg (nrun cfg evs) (.src t)).live = 0 ∧ openSubs (step cfg (nrun cfg evs) (.src t)) = [] ∧
    (step cfg (nrun cfg evs) (.src t)).subject = (if cfg.flags.resetsOn t then none else some g) ∧
    (step cfg (nrun cfg evs) (.src t)).total = (nrun cfg evs).total ∧
    (cfg.flags.resetsOn t = false → GenLatched Pend.idle (step cfg (nrun cfg evs) (.src t)) g ∧
      ((step cfg (nrun cfg evs) (.src t)).gens g).subj.status = Status.ofTerminal t ∧
      ((step cfg (nrun cfg evs) (.src t)).gens g).subj.buf = ((nrun cfg evs).gens g).subj.buf) :=
  src_terminal cfg t ht (inv_nrun cfg evs) h ha

/-- **replayed execution**: a subscriber arriving at a latched generation receives the connector's
    stored values (replay) and the stored terminal, no upstream subscription is made, nothing else
    changes … -/
theorem latched_subscriber_is_replayed (cfg : Cfg) (evs : List NEvent) (g : Nat)
    (h : (nrun cfg evs).subject = some g) (hl : GenLatched Pend.idle (nrun cfg evs) g) :
    ((step cfg (nrun cfg evs) .sub).subs (nrun cfg evs).nsubs).trace = Spec.late cfg.conn ((nrun cfg evs).gens g).subj ∧
    (step cfg (nrun cfg evs) .sub).gens = (nrun cfg evs).gens ∧
    (step cfg (nrun cfg evs) .sub).total = (nrun cfg evs).total ∧ (step cfg (nrun cfg evs) .sub).live = 0 := by
  have h1 := latched_sub cfg (inv_nrun cfg evs) h hl
  have h2 := latched_forever cfg (inv_nrun cfg evs) h hl .sub
  exact ⟨h1.1, h1.2.2.2, h2.2.2.2.2, h2.2.2.2.1⟩

/-- … for ever: whatever event follows, the generation stays latched with the same stored state -/
theorem latched_is_absorbing (cfg : Cfg) (evs : List NEvent) (g : Nat) (e : Event)
    (h : (nrun cfg evs).subject = some g) (hl : GenLatched Pend.idle (nrun cfg evs) g) :
    (step cfg (nrun cfg evs) e).subject = some g ∧ GenLatched Pend.idle (step cfg (nrun cfg evs) e) g ∧
    (step cfg (nrun cfg evs) e).gens = (nrun cfg evs).gens ∧ (step cfg (nrun cfg evs) e).live = 0 ∧
    (step cfg (nrun cfg evs) e).total = (nrun cfg evs).total :=
  latched_forever cfg (inv_nrun cfg evs) h hl e

/-- **fresh execution** (hot source): the creator of a generation receives only what a brand-new
    connector hands out, the source is subscribed (live = 1), nobody else's record changes -/
theorem fresh_execution_hot (cfg : Cfg) (hhot : cfg.Hot) (evs : List NEvent) (h : (nrun cfg evs).subject = none) :
    ((step cfg (nrun cfg evs) .sub).subs (nrun cfg evs).nsubs).trace = Spec.joined cfg.conn (Subj.new cfg.conn) ∧
    ((step cfg (nrun cfg evs) .sub).subs (nrun cfg evs).nsubs).status = 0 ∧
    (∀ k, k ≠ (nrun cfg evs).nsubs → (step cfg (nrun cfg evs) .sub).subs k = (nrun cfg evs).subs k) ∧
    (step cfg (nrun cfg evs) .sub).subject = some (nrun cfg evs).ngens ∧ (step cfg (nrun cfg evs) .sub).live = 1 :=
  fresh_hot_trace cfg hhot (inv_nrun cfg evs) h

/-- **all current subscribers receive the same notifications**: a source notification is appended,
    exactly once, to the trace of every open subscriber and of nobody else -/
theorem same_notifications (cfg : Cfg) (evs : List NEvent) (x : Ev) (k : Nat) (hk : k < (nrun cfg evs).nsubs) :
    ((step cfg (nrun cfg evs) (.src x)).subs k).trace =
      if ((nrun cfg evs).subs k).status = 0 then ((nrun cfg evs).subs k).trace ++ [x] else ((nrun cfg evs).subs k).trace :=
  src_uniform cfg (inv_nrun cfg evs) x k hk

/-- `unsub` never rewrites anybody's trace -/
theorem unsubscribe_keeps_traces (cfg : Cfg) (evs : List NEvent) (i k : Nat) :
    ((step cfg (nrun cfg evs) (.unsub i)).subs k).trace = ((nrun cfg evs).subs k).trace :=
  unsub_traces cfg (nrun cfg evs) i k

/-- **nobody listens ⇒ released** (`ResetOnRefCountZero`), `_partial`: every nested sequence in which
    no other subscriber arrives inside the source's `Subscribe` (inner unsubscribes, source values and
    terminals are allowed). Full statement — the same without `hev` — is FALSE on the current tree:
    `lateRelease_witness` (an inner `sub` after an inner terminal; `lateRelease_outside_domain`). -/
theorem released_when_unlistened_partial (cfg : Cfg) (hz : cfg.flags.onZero = true) (evs : List NEvent)
    (hev : ∀ e, e ∈ evs → e.noInnerSub = true) (ho : openSubs (nrun cfg evs) = []) : (nrun cfg evs).live = 0 :=
  released_of_listened (inv_nrun cfg evs) (listened_nrun cfg hz evs hev) ho

/-- … in particular every plain event sequence -/
theorem released_when_unlistened (cfg : Cfg) (hz : cfg.flags.onZero = true) (evs : List Event)
    (ho : openSubs (run cfg evs) = []) : (run cfg evs).live = 0 :=
  released_of_listened (inv_run cfg evs) (listened_run cfg hz evs) ho

/-! ### regression examples for the repaired nil dereference (fix a510ca9) -/

/-- `Share()` (publish, all three flags) over a source that completes synchronously (`Empty`-like) -/
def shareOverEmpty : Cfg := { conn := .publish, flags := ⟨true, true, true⟩, pre := fun _ => [.complete] }

/-- first upstream subscription completes synchronously, the later ones are hot -/
def shareEmptyThenHot : Cfg :=
  { conn := .publish, flags := ⟨true, true, true⟩, pre := fun k => if k = 0 then [.complete] else [] }

/-- what used to be the nil dereference and its leaked reference: the subscriber gets `Complete`,
    nothing is dropped, the reference is given back, and a later hot execution is released when its
    last listener leaves -/
theorem nilDeref_regression :
    (run shareOverEmpty [.sub]).drops = [] ∧ traces (run shareOverEmpty [.sub]) = [[.complete]] ∧
    (run shareOverEmpty [.sub]).refCount = 0 ∧
    (run shareEmptyThenHot [.sub, .sub, .unsub 1]).live = 0 ∧
    (run shareEmptyThenHot [.sub, .sub, .unsub 1]).refCount = 0 := by decide

/-! ### non-vacuity -/

/-- `Share()` over a hot source: defaults of operator_connectable.go:39-46 -/
def shareHot : Cfg := { conn := .publish, flags := ⟨true, true, true⟩, pre := fun _ => [] }
/-- `ShareReplay(2)` over a hot source: operator_connectable.go:197-208 -/
def shareReplay2Hot : Cfg := { conn := .replay 2, flags := ⟨true, false, false⟩, pre := fun _ => [] }

/-- **late release** (re-entrant source / concurrency; `nrun` = runs with events nested inside the
    source's `Subscribe`, K-tied like the plain ones): subscriber 0 creates generation 0; inside the
    source's `Subscribe` the source errors (reset: generation 0 is gone, subscriber 0's reference
    still counted) and subscriber 1 comes (creates generation 1) and goes (refCount 2 → 1); then
    subscriber 0's `Subscribe` returns and its teardown gives the last reference back — resetting the
    generation it captured. Nobody listens, `ResetOnRefCountZero` is set, no nil dereference happened,
    and generation 1's upstream subscription is still live. The universal theorems above quantify
    over plain event sequences (`nrun_plain`); this is outside them and is a finding of the search. -/
theorem lateRelease_witness :
    openSubs (nrun shareHot [.subNested [.src (.error (.user 1)), .sub, .unsub 1], .plain (.unsub 0)]) = [] ∧
    (nrun shareHot [.subNested [.src (.error (.user 1)), .sub, .unsub 1], .plain (.unsub 0)]).live = 1 ∧
    (nrun shareHot [.subNested [.src (.error (.user 1)), .sub, .unsub 1], .plain (.unsub 0)]).refCount = 0 := by decide

/-- the witness lies outside the `_partial` domain: a subscriber arrives inside the source's `Subscribe` -/
theorem lateRelease_outside_domain :
    (NEvent.subNested [.src (.error (.user 1)), .sub, .unsub 1]).noInnerSub = false := by decide

/-- plain runs are what the driver executes for plain case lines -/
theorem plain_runs (cfg : Cfg) (evs : List Event) : nrun cfg (evs.map NEvent.plain) = run cfg evs := nrun_plain cfg evs


-- two subscribers share one upstream subscription and see the same values from when they joined
example : traces (run shareHot [.sub, .src (.next 1), .sub, .src (.next 2), .unsub 0, .src (.next 3)])
    = [[.next 1, .next 2], [.next 2, .next 3]] := by decide
example : (run shareHot [.sub, .src (.next 1), .sub, .src (.next 2)]).live = 1 ∧
    (run shareHot [.sub, .src (.next 1), .sub, .src (.next 2)]).total = 1 := by decide
-- the last one leaves: released; the next one starts a second execution
example : (run shareHot [.sub, .sub, .unsub 0, .unsub 1]).live = 0 ∧
    (run shareHot [.sub, .sub, .unsub 0, .unsub 1, .sub]).total = 2 := by decide
-- ShareReplay(2): completion is latched, a late subscriber is replayed the last two values
example : traces (run shareReplay2Hot [.sub, .src (.next 1), .src (.next 2), .src (.next 3), .src .complete, .sub])
    = [[.next 1, .next 2, .next 3, .complete], [.next 2, .next 3, .complete]] := by decide
example : (run shareReplay2Hot [.sub, .src (.next 1), .src .complete, .sub]).total = 1 := by decide

/-! ## the connectable observable -/

open Ro.Connectable in
/-- at most one live upstream subscription -/
theorem connectable_upstream_at_most_one (cfg : CCfg) (evs : List CEvent) : (Connectable.run cfg evs).live ≤ 1 :=
  live_le_one_of_cinv (cinv_run cfg evs)

open Ro.Connectable in
/-- **nothing flows before Connect** -/
theorem connectable_nothing_before_connect (cfg : CCfg) (evs : List CEvent) (h : ∀ e, e ∈ evs → e.isConnect = false) :
    (Connectable.run cfg evs).total = 0 ∧ (Connectable.run cfg evs).live = 0 ∧
    ∀ i, i < (Connectable.run cfg evs).nsubs →
      ((Connectable.run cfg evs).subs i).trace = Spec.joined cfg.conn (Subj.new cfg.conn) :=
  nothing_before_connect cfg evs h

open Ro.Connectable in
/-- **Connect while connected does not subscribe again** and returns the existing subscription -/
theorem connectable_connect_idempotent (cfg : CCfg) (evs : List CEvent) (c : Nat)
    (hsub : (Connectable.run cfg evs).subscription = some c) (hconn : ((Connectable.run cfg evs).links c).status = 0) :
    (Connectable.step cfg (Connectable.run cfg evs) .connect).total = (Connectable.run cfg evs).total ∧
    (Connectable.step cfg (Connectable.run cfg evs) .connect).live = (Connectable.run cfg evs).live ∧
    (Connectable.step cfg (Connectable.run cfg evs) .connect).subscription = some c ∧
    (Connectable.step cfg (Connectable.run cfg evs) .connect).lastRet = some c ∧
    (Connectable.step cfg (Connectable.run cfg evs) .connect).same = (Connectable.run cfg evs).same ++ [true] ∧
    (Connectable.step cfg (Connectable.run cfg evs) .connect).subs = (Connectable.run cfg evs).subs :=
  connect_idempotent cfg (cinv_run cfg evs) hsub hconn

open Ro.Connectable in
/-- **disconnecting stops delivery** -/
theorem connectable_disconnect_stops (cfg : CCfg) (evs : List CEvent) :
    (Connectable.step cfg (Connectable.run cfg evs) .disconnect).live = 0 ∧
    ∀ x, Connectable.step cfg (Connectable.step cfg (Connectable.run cfg evs) .disconnect) (.src x) =
      Connectable.step cfg (Connectable.run cfg evs) .disconnect :=
  disconnect_stops cfg (cinv_run cfg evs)

/-- `Connectable(source)` defaults: publish connector, ResetOnDisconnect (observable.go:480-488) -/
def connHot : Connectable.CCfg := { conn := .publish, resetOnDisconnect := true, pre := fun _ => [] }

open Ro.Connectable in
example : Connectable.traces (Connectable.run connHot [.sub, .src (.next 1), .connect, .src (.next 2), .connect, .disconnect, .src (.next 3)])
    = [[.next 2]] := by decide
open Ro.Connectable in
example : (Connectable.run connHot [.sub, .connect, .connect]).total = 1 ∧
    (Connectable.run connHot [.sub, .connect, .connect]).same = [false, true] := by decide

end Ro.C11

#print axioms Ro.C11.share_invariant
#print axioms Ro.C11.upstream_at_most_one
#print axioms Ro.C11.upstream_live_while_listened
#print axioms Ro.C11.refCount_eq
#print axioms Ro.C11.subscribe_upstream_iff_no_generation
#print axioms Ro.C11.later_subscribers_join
#print axioms Ro.C11.joiner_receives_connector_replay
#print axioms Ro.C11.last_unsubscribe_releases
#print axioms Ro.C11.unsubscribe_keeps_upstream
#print axioms Ro.C11.after_source_terminal
#print axioms Ro.C11.latched_subscriber_is_replayed
#print axioms Ro.C11.latched_is_absorbing
#print axioms Ro.C11.fresh_execution_hot
#print axioms Ro.C11.same_notifications
#print axioms Ro.C11.unsubscribe_keeps_traces
#print axioms Ro.C11.nilDeref_regression
#print axioms Ro.C11.released_when_unlistened_partial
#print axioms Ro.C11.released_when_unlistened
#print axioms Ro.C11.lateRelease_witness
#print axioms Ro.C11.lateRelease_outside_domain
#print axioms Ro.C11.plain_runs
#print axioms Ro.C11.connectable_upstream_at_most_one
#print axioms Ro.C11.connectable_nothing_before_connect
#print axioms Ro.C11.connectable_connect_idempotent
#print axioms Ro.C11.connectable_disconnect_stops

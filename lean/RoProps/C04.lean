/-
  C04 — each operator computes its documented function of the input sequence.
  One theorem per machine: for every parameter value, every raw script (any values, any of the
  three endings, any illegal suffix), both source modes:
      (runOp (opM params) mode sub raw).out = Spec.op params (values raw) (ending raw)
  The specifications are plain list functions (RoModel/Spec/*.lean); the proofs live in
  RoProofs/Ops/*.lean; this file is the index that is audited (`#print axioms`) on every run.

  Deviations of the pinned tree from the documented meaning, each with a witness theorem:
   * `Max` on an empty source emits the zero value with a nil context (`max_empty_out`,
     `max_empty_witness`); `max_spec_partial` covers every other input.
   * `BufferWithCount` does not flush on a source error although its doc comment says so
     (`bufferCount_doc_deviation`); `bufferCount_spec` states what the code does.
  Chains: `seq_out` — a chain behaves as the composition of its parts.
-/
import RoProofs.Ops.Basic
import RoProofs.Ops.FilterSpecs
import RoProofs.Ops.TransformSpecs
import RoProofs.Ops.AggregateSpecs
namespace Ro.C04
open Ro

-- the shape of every operator theorem, restated here for two operators so that the statements
-- cannot drift silently (the others are checked by name below)
theorem take {α : Type} (n : Nat) (hn : 0 < n) (mode : SrcMode) (sub : Ctx) (raw : List (Notif α)) :
    (runOp (takeM n) mode sub raw).out = Spec.take n (values raw) (ending raw) := take_spec n hn mode sub raw

theorem map {α β : Type} (f : Ctx → α → Nat → Ctx × β) (mode : SrcMode) (sub : Ctx) (raw : List (Notif α)) :
    (runOp (mapM f) mode sub raw).out = Spec.map f (values raw) (ending raw) := map_spec f mode sub raw

example : Spec.take 2 [({}, (1 : Int)), ({}, 2), ({}, 3)] (.complete {}) = [.next {} 1, .next {} 2, .complete {}] := by decide

end Ro.C04

#print axioms Ro.C04.take
#print axioms Ro.C04.map
#print axioms Ro.all_spec
#print axioms Ro.assocSet_lookup
#print axioms Ro.bufferCount_doc_deviation
#print axioms Ro.bufferCount_spec
#print axioms Ro.clamp_spec
#print axioms Ro.contains_spec
#print axioms Ro.count_spec
#print axioms Ro.defaultIfEmpty_spec
#print axioms Ro.dematerialize_spec
#print axioms Ro.distinctBy_spec
#print axioms Ro.elementAtOrDefault_spec
#print axioms Ro.elementAt_spec
#print axioms Ro.empty_spec
#print axioms Ro.endWith_spec
#print axioms Ro.filter_spec
#print axioms Ro.find_spec
#print axioms Ro.first_spec
#print axioms Ro.flatten_spec
#print axioms Ro.head_spec
#print axioms Ro.id_spec
#print axioms Ro.ignoreElements_spec
#print axioms Ro.last_spec
#print axioms Ro.mapErr_spec
#print axioms Ro.mapTo_spec
#print axioms Ro.map_spec
#print axioms Ro.materialize_dematerialize_id
#print axioms Ro.materialize_spec
#print axioms Ro.max_empty_out
#print axioms Ro.max_empty_witness
#print axioms Ro.max_spec_partial
#print axioms Ro.min_spec
#print axioms Ro.onErrorReturn_spec
#print axioms Ro.pairwise_spec
#print axioms Ro.reduce_spec
#print axioms Ro.scan_spec
#print axioms Ro.seq_out
#print axioms Ro.skipLast_spec
#print axioms Ro.skipWhile_spec
#print axioms Ro.skip_spec
#print axioms Ro.startWith_spec
#print axioms Ro.sum_spec
#print axioms Ro.tail_spec
#print axioms Ro.takeLast_spec
#print axioms Ro.takeWhile_spec
#print axioms Ro.take_spec
#print axioms Ro.throwIfEmpty_spec
#print axioms Ro.toMap_spec
#print axioms Ro.toSlice_spec

/-
  C04 — each operator computes its documented function of the input sequence.
  One theorem per machine: for every parameter value, every raw script (any values, any of the
  three endings, any illegal suffix), both source modes:
      (runOp (opM params) mode sub raw).out = Spec.op params (values raw) (ending raw)
  The proofs live in RoProofs/Ops/*; this file is the index that is audited on every run.
-/
import RoProofs.Ops.Basic
namespace Ro.C04
open Ro

theorem map {α β : Type} (f : Ctx → α → Nat → Ctx × β) (mode : SrcMode) (sub : Ctx) (raw : List (Notif α)) :
    (runOp (mapM f) mode sub raw).out = Spec.map f (values raw) (ending raw) := map_spec f mode sub raw

theorem skip {α : Type} (n : Nat) (mode : SrcMode) (sub : Ctx) (raw : List (Notif α)) :
    (runOp (skipM n) mode sub raw).out = Spec.skip n (values raw) (ending raw) := skip_spec n mode sub raw

theorem take {α : Type} (n : Nat) (hn : 0 < n) (mode : SrcMode) (sub : Ctx) (raw : List (Notif α)) :
    (runOp (takeM n) mode sub raw).out = Spec.take n (values raw) (ending raw) := take_spec n hn mode sub raw

theorem ignoreElements {α : Type} (mode : SrcMode) (sub : Ctx) (raw : List (Notif α)) :
    (runOp (ignoreElementsM (α := α)) mode sub raw).out = Spec.ignoreElements (values raw) (ending raw) :=
  ignoreElements_spec mode sub raw

example : Spec.take 2 [({}, (1 : Int)), ({}, 2), ({}, 3)] (.complete {}) = [.next {} 1, .next {} 2, .complete {}] := by decide

end Ro.C04

#print axioms Ro.C04.map
#print axioms Ro.C04.skip
#print axioms Ro.C04.take
#print axioms Ro.C04.ignoreElements

/-
  C03, operator-level half — teardowns below operators run exactly once; a panicking teardown stops
  none of the others; the panic is re-raised to the caller of Unsubscribe after all of them have
  run, wrapped as an unsubscription error; once the downstream side is closed the source is released.
  (The kernel half — races between Complete / Error / Unsubscribe / Add under every schedule — is
  RoProps/C03.lean.)

  (1) the finalizer loop of subscription.go:114-150 over arbitrary TREES of subscriptions (an
      operator's teardown is the Unsubscribe of another subscription) and arbitrary subsets of
      panicking teardowns: `teardown_tree`, `teardown_every_subset`, `teardown_flat`;
  (2) that tree is the right model for a set-up is read from the operator's code
      (RoModel/Drivers/Cut.lean `setupTree`) and compared with the running code on every run
      (kind `teardown`); `setups_isolated` decides that EVERY set-up tree the driver uses is in the
      domain of (1) — no exception since fix 694a874;
  (3) `ObserveOn`/`SubscribeOn` (detachOn), `ThrowOnContextCancel` and `ToChannel` release their
      goroutine / channel in a deferred action of the teardown closure (fix 694a874; before it the
      release followed the upstream `Unsubscribe` unisolated and a panicking teardown skipped it):
      `deferred_release` — the release runs and the panic still reaches the caller;
  (4) release: `released`, `released_from_inside` (machines; the facts that make the model apply
      to an operator are decided in RoProps/C14.lean `table_ok`).
-/
import RoProofs.CutIn
import RoModel.Drivers.Cut
namespace Ro.C03op
open Ro Ro.Driver.Drivers.Cut

theorem teardown_tree (fs : List Fin) (hc : Fin.closureFreeL fs = true) :
    (unsubscribe fs).1 = Fin.idsL fs ∧
    ((unsubscribe fs).2 = none ↔ Fin.panicsL fs = []) ∧
    (∀ e, (unsubscribe fs).2 = some e → e.isJoinOfUn = true ∧ e.leaves = Fin.panicsL fs) :=
  unsubscribe_tree fs hc

theorem teardown_every_subset (fs : List Fin) (hc : Fin.closureFreeL fs = true) (pan : Nat → Option Err) :
    normalize (unsubscribe (Fin.assignL pan fs)) =
      (Fin.idsL fs, if (Fin.uidsL fs).filterMap pan = [] then none else some ((Fin.uidsL fs).filterMap pan)) :=
  unsubscribe_assign fs hc pan

/-- one subscription, user teardowns only: the exact value raised -/
theorem teardown_flat (l : List (Nat × Option Err)) :
    unsubscribe (l.map (fun p => Fin.leaf p.1 p.2)) =
      (l.map (·.1),
       if (l.filterMap (·.2)).isEmpty then none
       else some (.join (l.filterMap (fun p => p.2.map (fun e => TErr.un (.val e)))))) :=
  unsubscribe_flat l

/-- nothing panics: every teardown once, nothing raised — whatever the shape, closures included -/
theorem teardown_quiet (fs : List Fin) (h : Fin.panicsL fs = []) : unsubscribe fs = (Fin.idsL fs, none) :=
  unsubscribe_quiet fs h

/-- the set-ups whose teardown closure performs a second release after the upstream Unsubscribe
    without isolating it: none (ObserveOn and ThrowOnContextCancel were, before fix 694a874) -/
def knownUnisolated : List (String × String) := []

def allSetups : List (String × String) :=
  [("plain", ""), ("tapAbove", ""), ("tapBelow", ""), ("merge", ""), ("merge3", ""), ("takeUntil", ""), ("combineLatest", ""),
   ("leak", "ObserveOn"), ("leak", "ThrowOnContextCancel"), ("leak", "Delay"), ("leak", "Timeout"), ("leak", "ToChannel"),
   ("leak", "BufferWithTime"), ("leak", "BufferWithTimeOrCount"), ("leak", "SampleTime"), ("leak", "ThrottleTime"),
   ("leak", "TakeUntilInterval"), ("leak", "MergeWithInterval")]

/-- every set-up tree the driver uses (`setupTree`, all set-ups and both kinds of ending) is in the
    domain of `teardown_tree`: none contains an unisolated multi-action closure. This is a statement
    about the MODELLED set-ups only — the teardown closures of `GroupBy` and `ShareWithConfig`
    (release after `sub.Unsubscribe()`, not observable as a library goroutine) are not among them. -/
theorem setups_isolated :
    allSetups.all (fun s => ["unsub", "complete"].all (fun e =>
      match setupTree s.1 e s.2 with
      | none => true
      | some t => Fin.closureFreeL t == !(knownUnisolated.contains s))) = true := by decide

/-- a deferred release runs although the teardown below it panics, and the panic reaches the caller -/
theorem deferred_release :
    normalize (unsubscribe [.deferred (.sub [.sub [.leaf 1 (some (.user 5))]]) [90]]) = ([1, 90], some [.user 5]) :=
  Ro.deferred_runs_release

/-- closed downstream ⇒ the source is released (hot source, every machine, every script) -/
theorem released {σ α β : Type} (m : Machine σ α β) (sub : Ctx) (raw : List (Notif α)) (hs : m.subscribes = true) :
    (runOp m .hot sub raw).downOpen = false → (runOp m .hot sub raw).upOpen = false :=
  runOp_hot_released m sub raw hs

/-- … also when the subscription is closed from inside a callback -/
theorem released_from_inside {σ α β : Type} (m : Machine σ α β) (sub : Ctx) (raw : List (Notif α)) {k : Nat} (hk : 0 < k)
    (hs : m.subscribes = true) (h : k ≤ (runOp m .hot sub raw).out.length) :
    (runOpCutIn m sub raw k).downOpen = false ∧ (runOpCutIn m sub raw k).upOpen = false :=
  runOpCutIn_released m sub raw hk hs h

/-! ### non-vacuity -/
-- three teardowns, the first and the last panic: all run, in order; two root causes, in order
example : normalize (unsubscribe [.leaf 1 (some (.user 5)), .leaf 2 none, .leaf 3 (some (.panicVal 6))])
    = ([1, 2, 3], some [.user 5, .panicVal 6]) := by decide
-- the same teardowns behind an operator's upstream subscriber and a composite subscription
example : normalize (unsubscribe [.sub [.leaf 1 (some (.user 5))], .sub [.sub [.leaf 2 none], .sub [.leaf 3 (some (.panicVal 6))]]])
    = ([1, 2, 3], some [.user 5, .panicVal 6]) := by decide
example : (unsubscribe [.sub [.leaf 1 (some (.user 5))], .leaf 2 none]).2.map TErr.isJoinOfUn = some true := by decide

end Ro.C03op

#print axioms Ro.C03op.teardown_tree
#print axioms Ro.C03op.teardown_every_subset
#print axioms Ro.C03op.teardown_flat
#print axioms Ro.C03op.teardown_quiet
#print axioms Ro.C03op.setups_isolated
#print axioms Ro.C03op.deferred_release
#print axioms Ro.C03op.released
#print axioms Ro.C03op.released_from_inside

/-
  C13 — goroutine-safe parts of the API are free of data races.

  (1) `no_data_race` (RoProofs.Lockset): the lockset theorem in the abstract machine of
      RoModel.Lockset — any number of threads, any schedule; accesses are atomic / under locks /
      plain; locks are acquired only when free; invariant "each lock has at most one holder and a
      thread at an `under L` access holds L" by induction over the schedule. If every conflicting
      pair that is not ordered by a *named* structural rule is (both atomic) ∨ (common lock), no
      reachable state that respects those orderings has two different threads simultaneously at
      conflicting accesses that are not both atomic.
  (2) `table_ok`: the per-pair predicate, decided by the kernel on the `Locksets` table that
      go/extract/locksets.go regenerates from the source on every run (one row per access to a field
      of a kernel struct or to a shared captured variable of an operator).
  (3) `table_race_free_partial`: (1) instantiated with (2): no data race among the recorded
      accesses of any location outside `knownRacy`.

  What is assumed (trusted base, besides the extractor): the four orderings of
  `Ro.Lockset.tableOrderings` are respected by real executions —
    initBeforePublication            a literal that mentions a variable is created after the write
                                     that precedes it in the same function; a struct is not shared
                                     before its constructor returns;
    subscribeBodyBeforeTeardown      observable.go:310 registers the teardown after the subscribe
                                     function returned, and a subscription runs it once (C03);
    sameSequentialSource             a source delivers the callbacks of one subscription one at a
                                     time (C02 for safe sources, the Observable contract otherwise);
    awaitedSourceBeforeContinuation  Subscription.Wait() returns after the subscription was torn
                                     down, which follows its terminal callback (subscriber.go:218,240).

  Current tree: four locations fail the predicate (`knownRacy`); five more were found, confirmed, repaired
  in the repository meanwhile and are no longer excused (known_findings.jsonl, `fixed:` lines); each was confirmed with the race
  detector on the real code (harness kind `race`, known_findings.jsonl). The full statement is
  `tableOk [] RoGen.Locksets.table = true`; it is false on the pinned tree (the check names the failing pairs).
-/
import RoProofs.Lockset
import RoGen.Locksets
namespace Ro.C13
open Ro Ro.Lockset Ro.LockFacts

/-- the lockset theorem (any number of threads, any schedule) -/
theorem no_data_race {T L A Loc : Type} [DecidableEq T] (acc : A → Acc Loc L) (o : Orderings A)
    (hpairs : ∀ a b, Conflict (acc a) (acc b) → ¬ o.ordered a b →
      ((acc a).isAtomic ∧ (acc b).isAtomic) ∨ ∃ l, l ∈ (acc a).locks ∧ l ∈ (acc b).locks)
    (xs : List (Action T L A)) (s : State T L A) (hrun : Run acc State.init xs s) (hresp : Respects o s) :
    ¬ Race acc s :=
  Ro.Lockset.no_data_race acc o hpairs xs s hrun hresp

/-- the invariant behind it: after every schedule each lock has at most one holder and a thread at
    an `under L` access holds L -/
theorem lock_invariant {T L A Loc : Type} [DecidableEq T] (acc : A → Acc Loc L)
    (xs : List (Action T L A)) (s : State T L A) (hrun : Run acc State.init xs s) : Inv acc s :=
  inv_run acc hrun (inv_init acc)

set_option maxRecDepth 100000 in
/-- every location of the regenerated table outside `knownRacy` satisfies the per-pair predicate -/
theorem table_ok : tableOk knownRacy RoGen.Locksets.table = true := by decide

/-- no data race among the recorded accesses of the locations that are not listed -/
theorem table_race_free_partial {T : Type} [DecidableEq T]
    (xs : List (Action T Nat TAcc)) (s : State T Nat TAcc) (hrun : Run tacc State.init xs s)
    (hresp : Respects tableOrderings s)
    (l : Loc) (hl : l ∈ RoGen.Locksets.table) (hk : knownRacy.contains l.name = false)
    (th u : T) (a b : Access) (hne : th ≠ u) (ha : a ∈ l.rows) (hb : b ∈ l.rows)
    (hca : s.cur th = some (l.name, a)) (hcb : s.cur u = some (l.name, b))
    (hw : a.write = true ∨ b.write = true) :
    a.prot.isAtomic = true ∧ b.prot.isAtomic = true :=
  table_race_free knownRacy RoGen.Locksets.table table_ok xs s hrun hresp l hl hk th u a b hne ha hb hca hcb hw

/-! ### deviation witnesses (rows as on the pinned tree; independent of the regenerated table) -/

/-- connectable: `s.subject` written by the disconnect finalizer without `s.mu` (observable.go:551)
    against the read under `s.mu` in ConnectWithContext (:547) -/
theorem connectable_subject_witness :
    pairOk { line := 547, write := false, fn := "connectableObservableImpl.ConnectWithContext", ctx := .method, prot := .under [1] }
           { line := 551, write := true, fn := "connectableObservableImpl.ConnectWithContext", ctx := .method, prot := .none } = false := by decide

/-- ObserveOn / SubscribeOn (detachOn), ToChannel: the teardown closes the hand-off channel
    (write of its open/closed state, operator_utility.go:585) while a source callback may be
    sending on it (read, :597); the two contexts are not ordered and neither holds a lock -/
theorem handoff_close_witness :
    pairOk { line := 597, write := false, fn := "detachOn", ctx := .sourceCb 593 false, prot := .sameSequentialSource }
           { line := 585, write := true, fn := "detachOn", ctx := .teardown, prot := .subscribeBodyBeforeTeardown } = false := by decide

/-- what the repaired GroupBy looks like: teardown and callbacks only call sync.Map methods -/
example : pairOk { line := 365, write := true, fn := "GroupByIWithContext", ctx := .sourceCb 358 false, prot := .atomic }
                 { line := 345, write := true, fn := "GroupByIWithContext", ctx := .teardown, prot := .atomic } = true := by decide

-- non-vacuity of the rules: each accepts the situation it is named after and nothing weaker
example : pairOk { line := 1, write := true, fn := "f", ctx := .body, prot := .initBeforePublication }
                 { line := 2, write := false, fn := "f", ctx := .sourceCb 3 true, prot := .none } = true := by decide
example : pairOk { line := 1, write := true, fn := "f", ctx := .body, prot := .subscribeBodyBeforeTeardown }
                 { line := 2, write := true, fn := "f", ctx := .teardown, prot := .subscribeBodyBeforeTeardown } = true := by decide
example : pairOk { line := 1, write := true, fn := "f", ctx := .sourceCb 3 false, prot := .sameSequentialSource }
                 { line := 2, write := true, fn := "f", ctx := .sourceCb 3 false, prot := .sameSequentialSource } = true := by decide
example : pairOk { line := 1, write := true, fn := "f", ctx := .sourceCb 3 false, prot := .sameSequentialSource }
                 { line := 2, write := true, fn := "f", ctx := .sourceCb 4 false, prot := .sameSequentialSource } = false := by decide
example : pairOk { line := 1, write := true, fn := "f", ctx := .sourceCb 3 true, prot := .none }
                 { line := 1, write := true, fn := "f", ctx := .sourceCb 3 true, prot := .none } = false := by decide
example : pairOk { line := 1, write := true, fn := "f", ctx := .awaitedCb 3, prot := .awaitedSourceBeforeContinuation }
                 { line := 2, write := false, fn := "f", ctx := .body, prot := .subscribeBodyBeforeTeardown } = true := by decide
example : pairOk { line := 1, write := true, fn := "f", ctx := .method, prot := .under [1, 2] }
                 { line := 2, write := true, fn := "f", ctx := .method, prot := .under [2] } = true := by decide
example : pairOk { line := 1, write := true, fn := "f", ctx := .method, prot := .under [1] }
                 { line := 2, write := false, fn := "f", ctx := .method, prot := .atomic } = false := by decide

end Ro.C13

#print axioms Ro.C13.no_data_race
#print axioms Ro.C13.lock_invariant
#print axioms Ro.C13.table_ok
#print axioms Ro.C13.table_race_free_partial
#print axioms Ro.C13.connectable_subject_witness
#print axioms Ro.C13.handoff_close_witness

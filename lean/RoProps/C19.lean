/-
  C19 — Prometheus instrumentation is transparent and its counters are exact.

  Model: `RoModel.Prom` (the counting / timing operators of ee/plugins/prometheus/operator.go as
  machines; chains with one subscriber gate per stage; the plain and the instrumented composition
  of pipe.go; `checkLicenseAndPipe` selecting one of them at subscription time).

  (1) Transparency. For every chain of operators that cannot read the plugin's unexported context
      key and never emit a nil context (`Pair`: proved for the stand-alone counting operators
      against `return source`, and for catalogue machines of every shape in `RoProofs.PromPairs`),
      every source mode, subscription context, raw script (legal or not) and external cut:
      the subscriber of the instrumented pipeline (licence on) is delivered the same notifications
      with the same context values as the subscriber of the plain pipeline (licence off), the
      source is subscribed equally often and released equally often.
      Partial on the pinned tree: a value emitted with a nil context (`Max` on an empty source,
      known finding of C04/C09) makes the instrumentation panic inside its observer callback,
      which turns the value into an Error — witness `transparency_fails_on_nil_context`. The
      theorem excludes exactly that class (the `NonNil` component of `Pair`).
  (2) Exact counters (licence on), every chain of machines whatsoever, every source mode, script
      and cut — `counters_pinned`: subscriptions = 1 per Subscribe; notifications-in = values the
      source emitted while subscribed (`in_is_source_values_sync`: the values of the gated raw
      script for a synchronous source; `in_is_source_prefix` otherwise); notifications-out =
      values delivered; one lag observation per source value whose context is not nil; one
      processing-time observation per value leaving operator i *with a context that carries the
      checkpoint*. `counters_exact_partial`: on the sub-domain where every value leaving an
      operator carries the checkpoint and the source emits no nil context, the counters are
      exactly the ones the property states.
      Deviation of the pinned tree from the property as stated: values an operator emits with a
      context that does not descend from a source value (at subscription or completion time, or a
      fresh context) get no processing-time observation — witness
      `processing_observation_missing` (full statement: `Spec.Exact` for every chain).
  (3) Stand-alone counters: every stage with `Sound` counters shows `tally = spec (what its gate
      let through) (runs of its subscribe function)` (`standalone_exact`); Next / Error / Complete /
      subscription counters and the lag observer are `Sound`; a stage's subscribe function runs
      once per subscription iff every later stage subscribes to its upstream (`subscribe_runs`).
  (4) Several subscriptions: the totals are the sums; subscriptions total = number of Subscribe.
  (F) The regenerated tables of pipe.go / license.go / operator.go satisfy the predicates the
      model was written from (`decide`), and the table's layout is the model's `instrument`.
-/
import RoProofs.PromPairs
import RoProofs.PromDriver
import RoProofs.PromStamped
import RoProofs.PromCounters
import RoModel.Spec.Prom
import RoGen.Prom
namespace Ro.C19
open Ro Ro.Prom Ro.Prom.Spec Ro.Facts

variable {α : Type}

/-! ### (1) transparency -/

/-- licence on vs licence off, through `checkLicenseAndPipe` -/
theorem transparent (ws : List (Pair α)) (hot : Bool) (sub : Ctx) (raw : List (Notif α)) (cut : Option Nat)
    (hs : sub.isNil = false) (hn : NonNil raw) :
    SameObservation (run hot sub (pipe true (chainI ws)) raw cut) (run hot sub (pipe false (chainP ws)) raw cut) := by
  obtain ⟨T, h⟩ := instrument_sim ws
  have := h.run hot sub raw cut hs hn
  exact ⟨this.1, this.2.2, this.2.1⟩

/-- stand-alone counting operators applied without `PipeN` (licence on vs off) -/
theorem standalone_transparent (ws : List (Pair α)) (hot : Bool) (sub : Ctx) (raw : List (Notif α))
    (cut : Option Nat) (hs : sub.isNil = false) (hn : NonNil raw) :
    SameObservation (run hot sub (chainI ws) raw cut) (run hot sub (chainP ws) raw cut) := by
  obtain ⟨T, h⟩ := plain_sim ws
  have := h.run hot sub raw cut hs hn
  exact ⟨this.1, this.2.2, this.2.1⟩

/-- with the licence off the subscribed composition *is* the plain one -/
theorem licence_off_is_plain (ms : List (AnyM α)) : pipe false ms = ms := rfl

/-- the delivered trace obeys the observable grammar on both sides (C01 for these chains) is
    not restated here; what is: the private key is all that `eraseL` removes -/
theorem erase_only_private_key (c : Ctx) (h : stamped c = false) : eraseCtx c = c := by
  cases c with
  | mk marks isNil =>
    simp only [stamped, List.contains_eq_mem, decide_eq_false_iff_not] at h
    simp only [eraseCtx, Ctx.mk.injEq, and_true]
    apply List.filter_eq_self.mpr
    intro a ha
    simp only [bne_iff_ne, ne_eq]
    intro e
    exact h (e ▸ ha)

/-! ### (2) exact counters -/

theorem counters_pinned (ms : List (AnyM α)) (hot : Bool) (sub : Ctx) (raw : List (Notif α)) (cut : Option Nat) :
    ExactPinned ms (run hot sub (instrument ms) raw cut) := by
  have h := instrument_counters hot sub ms raw cut
  exact ⟨h.1, h.2.1, h.2.2.1, h.2.2.2.1, h.2.2.2.2⟩

/-- on the sub-domain that excludes exactly the two listed deviations, the counters are the
    ones the property states -/
theorem counters_exact_partial (ms : List (AnyM α)) (hot : Bool) (sub : Ctx) (raw : List (Notif α))
    (cut : Option Nat)
    (hst : AllStamped ms (run hot sub (instrument ms) raw cut))
    (hnn : SourceNonNil ms (run hot sub (instrument ms) raw cut)) :
    Exact ms (run hot sub (instrument ms) raw cut) := by
  have h := counters_pinned ms hot sub raw cut
  refine ⟨h.subs, h.inN, h.outN, h.lag.trans hnn, ?_⟩
  rw [h.proc]
  exact List.map_congr_left hst

theorem countNonNil_of_nonNil (l : List (Notif α)) (h : NonNil l) : countNonNilNext l = countNext l := by
  induction l with
  | nil => rfl
  | cons x xs ih =>
    have hx := h.head
    cases x with
    | next c v =>
      have hc : c.isNil = false := hx
      simp [countNonNilNext, countNext, ih h.tail, hc]
    | error c e => simp [countNonNilNext, countNext, ih h.tail]
    | complete c => simp [countNonNilNext, countNext, ih h.tail]

theorem gate_subset (l : List (Notif α)) : ∀ x ∈ gate l, x ∈ l := by
  induction l with
  | nil => intro x hx; simp [gate] at hx
  | cons y ys ih =>
    intro x hx
    simp only [gate] at hx
    split at hx
    · simp only [List.mem_singleton] at hx; rw [hx]; exact List.mem_cons_self ..
    · rcases List.mem_cons.mp hx with h | h
      · rw [h]; exact List.mem_cons_self ..
      · exact List.mem_cons_of_mem _ (ih x h)

/-- a source that never emits a nil context: one lag observation per source value -/
theorem source_nonNil_of_script (ms : List (AnyM α)) (hot : Bool) (sub : Ctx) (raw : List (Notif α))
    (cut : Option Nat) (hn : NonNil raw) : SourceNonNil ms (run hot sub (instrument ms) raw cut) := by
  apply countNonNil_of_nonNil
  intro x hx
  have hp := head_seen_prefix hot sub AnyM.before (tailI ms) raw cut
  exact hn x (gate_subset raw x (hp.subset hx))

/-- notifications-in for a synchronous source that was subscribed: the values of the gated raw
    script -/
theorem in_is_source_values_sync (ms : List (AnyM α)) (sub : Ctx) (raw : List (Notif α)) (cut : Option Nat)
    (hsub : (run false sub (instrument ms) raw cut).srcSubs = 1) :
    (counters ms (run false sub (instrument ms) raw cut).cfg).inN = countNext (gate raw) := by
  have h := head_seen_sync sub AnyM.before (tailI ms) raw cut hsub
  exact (counters_pinned ms false sub raw cut).inN.trans (congrArg countNext h)

/-- in general: the values of a prefix of the gated raw script (what the source emitted before
    the pipeline unsubscribed from it) -/
theorem in_is_source_prefix (ms : List (AnyM α)) (hot : Bool) (sub : Ctx) (raw : List (Notif α)) (cut : Option Nat) :
    ∃ l, l <+: gate raw ∧ (counters ms (run hot sub (instrument ms) raw cut).cfg).inN = countNext l :=
  ⟨_, head_seen_prefix hot sub AnyM.before (tailI ms) raw cut, (counters_pinned ms hot sub raw cut).inN⟩

/-- A static sub-domain: chains of operators that keep the checkpoint (`Keeps`: every value they
    emit carries a non-nil context descending from a value they received — the pointwise, the
    cutting and the replaying operators of the catalogue, `RoProofs.PromStamped`) over a source that
    emits no nil context. There the counters are exactly the ones the property states, for every
    source mode, script and cut. -/
theorem counters_exact_static (ks : List (Keeps α)) (hot : Bool) (sub : Ctx) (raw : List (Notif α))
    (cut : Option Nat) (hn : NonNil raw) :
    Exact (chainK ks) (run hot sub (instrument (chainK ks)) raw cut) := by
  apply counters_exact_partial
  · intro l hl
    exact count_of_goodL l (tailSeen_good ks _ (tinv_run ks hot sub raw cut hn) l hl)
  · exact source_nonNil_of_script (chainK ks) hot sub raw cut hn

/-! ### (1b) every chain the driver / harness can build -/

/-- every stage of the driver's table other than `Max`, any parameters / variant / callback -/
theorem every_stage_related (op : String) (p : List Int) (var : String) (cbs : List Ro.Driver.Cb) (a : AnyM Int)
    (h : Ro.Driver.Drivers.Prom.stageOf op p var cbs = some a) (hmax : op ≠ "Max") (htag : GoodTags cbs) :
    Related a a := stageOf_related op p var cbs a h hmax htag

/-- the driver's per-subscription result with the licence on and off, every case it accepts that
    has no `Max` and no reserved marker: same trace, releases and source subscriptions -/
theorem driver_results_transparent (ee hot : Bool) (subS chain script : String) (cut : Option Nat)
    (eI eP : List (AnyM Int × Bool)) (raw : List (Notif Int))
    (hsub : (Ro.Driver.parseCtx subS).isNil = false) (hg : ChainGood chain)
    (hI : Ro.Driver.Drivers.Prom.parseChain true chain = some eI)
    (hP : Ro.Driver.Drivers.Prom.parseChain false chain = some eP)
    (hraw : Ro.Driver.parseScript (Ro.Driver.parseCtx subS) script = some raw) :
    (Ro.Driver.Drivers.Prom.runSub ee true hot (Ro.Driver.parseCtx subS) (eI.map (·.1)) raw cut).trace =
      (Ro.Driver.Drivers.Prom.runSub ee false hot (Ro.Driver.parseCtx subS) (eP.map (·.1)) raw cut).trace ∧
    (Ro.Driver.Drivers.Prom.runSub ee true hot (Ro.Driver.parseCtx subS) (eI.map (·.1)) raw cut).rel =
      (Ro.Driver.Drivers.Prom.runSub ee false hot (Ro.Driver.parseCtx subS) (eP.map (·.1)) raw cut).rel ∧
    (Ro.Driver.Drivers.Prom.runSub ee true hot (Ro.Driver.parseCtx subS) (eI.map (·.1)) raw cut).ssub =
      (Ro.Driver.Drivers.Prom.runSub ee false hot (Ro.Driver.parseCtx subS) (eP.map (·.1)) raw cut).ssub :=
  driver_transparent ee hot subS chain script cut eI eP raw hsub hg hI hP hraw

/-! ### (3) stand-alone counters -/

/-- every stage of every chain, every run: sound counters equal their specification -/
theorem standalone_exact (hot : Bool) (sub : Ctx) (ms : List (AnyM α)) (raw : List (Notif α)) (cut : Option Nat) :
    AllInv TallyInv ms (run hot sub ms raw cut).cfg := tally_run hot sub ms raw cut

/-- e.g. the operator applied directly to the source -/
theorem standalone_head (a : AnyM α) (ha : Sound a) (rest : List (AnyM α)) (hot : Bool) (sub : Ctx)
    (raw : List (Notif α)) (cut : Option Nat) :
    a.tally (run hot sub (a :: rest) raw cut).cfg.1.st =
      a.spec (run hot sub (a :: rest) raw cut).cfg.1.seen (run hot sub (a :: rest) raw cut).cfg.1.subd :=
  (tally_run hot sub (a :: rest) raw cut).1 ha

theorem next_counter_sound : Sound (AnyM.cntNext (α := α)) := sound_cntNext
theorem error_counter_sound : Sound (AnyM.cntError (α := α)) := sound_cntError
theorem complete_counter_sound : Sound (AnyM.cntComplete (α := α)) := sound_cntComplete
theorem subscription_counter_sound : Sound (AnyM.cntSub (α := α)) := sound_cntSub
theorem lag_observer_sound : Sound (AnyM.lag (α := α)) := sound_lag

/-- the subscribe function of stage k runs once iff every later stage subscribes upstream -/
theorem subscribe_runs (hot : Bool) (sub : Ctx) (ms : List (AnyM α)) (raw : List (Notif α)) (cut : Option Nat) :
    subds ms (run hot sub ms raw cut).cfg = reachList ms := subds_run hot sub ms raw cut

/-! ### (4) several subscriptions -/

theorem totals_subs (hot : Bool) (sub : Ctx) (ms : List (AnyM α)) (scripts : List (List (Notif α) × Option Nat)) :
    (totals hot sub ms scripts).subs = scripts.length := by
  unfold totals
  suffices h : ∀ (acc : Counters), (scripts.foldl (fun acc s =>
      acc.add (counters ms (run hot sub (instrument ms) s.1 s.2).cfg)) acc).subs = acc.subs + scripts.length by
    simpa using h { proc := ms.map (fun _ => 0) }
  induction scripts with
  | nil => intro acc; rfl
  | cons s rest ih =>
    intro acc
    rw [List.foldl_cons, ih]
    have := (counters_pinned ms hot sub s.1 s.2).subs
    simp only [Counters.add, this, List.length_cons]
    omega

theorem totals_out (hot : Bool) (sub : Ctx) (ms : List (AnyM α)) (scripts : List (List (Notif α) × Option Nat)) :
    (totals hot sub ms scripts).outN =
      (scripts.map (fun s => countNext (run hot sub (instrument ms) s.1 s.2).out)).sum := by
  unfold totals
  suffices h : ∀ (acc : Counters), (scripts.foldl (fun acc s =>
      acc.add (counters ms (run hot sub (instrument ms) s.1 s.2).cfg)) acc).outN =
      acc.outN + (scripts.map (fun s => countNext (run hot sub (instrument ms) s.1 s.2).out)).sum by
    simpa using h { proc := ms.map (fun _ => 0) }
  induction scripts with
  | nil => intro acc; simp
  | cons s rest ih =>
    intro acc
    rw [List.foldl_cons, ih]
    have := (counters_pinned ms hot sub s.1 s.2).outN
    simp only [Counters.add, this, List.map_cons, List.sum_cons]
    omega

/-! ### deviations of the pinned tree (witnesses) -/

def c7 : Ctx := { marks := [7] }

/-- `Max` on an empty source emits the zero value with a nil context; the processing-time
    observer behind it dereferences the context and its panic reaches the subscriber as an Error:
    the instrumented pipeline and the plain one deliver different traces. -/
theorem transparency_fails_on_nil_context :
    eraseL (run false c7 (instrument [AnyM.of maxM]) [.complete (c7.tag 1)] none).out
      = [.error Ctx.nil errNilValue] ∧
    eraseL (run false c7 [AnyM.of maxM] [.complete (c7.tag 1)] none).out
      = [.next Ctx.nil 0, .complete (c7.tag 1)] := by
  constructor <;> rfl

/-- `EndWith(8)` over the script `1, complete`: two values leave operator 0, only the one that
    descends from a source value is observed. -/
theorem processing_observation_missing :
    let r := run false c7 (instrument [AnyM.of (endWithM [(8 : Int)])]) [.next (c7.tag 1) 1, .complete (c7.tag 2)] none
    (counters _ r.cfg).proc = [1] ∧ (tailSeen _ r.cfg.2).map countNext = [2] ∧
    eraseL r.out = [.next (c7.tag 1) 1, .next (c7.tag 2) 8, .complete (c7.tag 2)] := by
  refine ⟨rfl, rfl, ?_⟩
  decide

-- non-vacuity: a licensed pipeline Take(2) |> Map(×2) over an illegal script, hot, two
-- processing-time observers; and the stand-alone counters
example :
    let ms : List (AnyM Int) := [AnyM.of (takeM 2), AnyM.of (mapM (fun c v _ => (c, v * 2)))]
    let r := run true c7 (instrument ms) [.next c7 1, .next c7 2, .next c7 3, .complete c7] none
    eraseL r.out = [.next c7 2, .next c7 4, .complete c7] ∧
    counters ms r.cfg = { subs := 1, inN := 2, outN := 2, lag := 2, proc := [2, 2] } ∧ r.rel = 1 := by
  decide

example :
    let ms : List (AnyM Int) := [AnyM.cntSub, AnyM.cntNext, AnyM.cntError, AnyM.cntComplete, AnyM.lag]
    tallies ms (run false c7 ms [.next c7 1, .next c7 2, .error c7 (.user 3), .next c7 9] none).cfg = [1, 2, 1, 0, 2] := by
  decide

/-! ### (F) the source has the shape the model was written from -/

/-- pipe.go: every generated arity 1..24 — the function description skips exactly the
    non-operator parameters; plain = operators in order; instrumented = `op1, obs0, op2, obs1, …`
    with observer i carrying argument i and operator index i; erasing the observers from the
    instrumented composition gives the plain one -/
theorem pipes_ok : PipesOk RoGen.Prom.pipes := by decide

/-- pipe.go:24-58: `PipeOp3(observeBeforePipe(in, lag), operators, observeAfterPipe(out, subscriptions))` -/
theorem wrap_ok : WrapOk RoGen.Prom.wrapFn RoGen.Prom.wrap := by decide

/-- license.go:25-49: the licence is read inside the subscribe function and selects the
    composition; the selected pipeline's `Unsubscribe` is the teardown -/
theorem licence_ok : LicenceOk RoGen.Prom.licence := by decide

/-- operator.go: every wrapper subscribes upstream once with the subscriber's context, forwards
    each notification exactly once and unchanged, increments before forwarding, returns its
    upstream `Unsubscribe`; and the callbacks are the event lists the machines were written from -/
theorem wrappers_ok : WrappersOk RoGen.Prom.wrappers := by decide

theorem interp_layoutFrom (pre ms : List (AnyM α)) :
    (layoutFrom pre.length ms.length).map (interp (pre ++ ms)) =
      ms.flatMap (fun m => [some m, some AnyM.proc]) := by
  induction ms generalizing pre with
  | nil => rfl
  | cons m rest ih =>
    have h1 : (pre ++ m :: rest)[pre.length]? = some m := by simp
    have h2 := ih (pre ++ [m])
    simp only [List.length_append, List.length_cons, List.length_nil, List.append_assoc, List.cons_append, List.nil_append] at h2
    simp only [List.length_cons, layoutFrom, List.map_cons, interp, Nat.add_sub_cancel, h1, List.flatMap_cons,
      List.cons_append, List.nil_append]
    rw [if_neg (by omega)]
    exact congrArg (fun l => some m :: some AnyM.proc :: l) h2

theorem tailI_flatMap (ms : List (AnyM α)) :
    ms.flatMap (fun m => [some m, some AnyM.proc]) ++ [some AnyM.after] = (tailI ms).map some := by
  induction ms with
  | nil => rfl
  | cons m rest ih => simp only [List.flatMap_cons, tailI, List.map_cons, List.cons_append, List.nil_append, ih]

/-- the layout the table predicate fixes is the model's instrumented composition -/
theorem layout_is_instrument (ms : List (AnyM α)) :
    (some AnyM.before :: (layout ms.length).map (interp ms)) ++ [some AnyM.after] = (instrument ms).map some := by
  have h := interp_layoutFrom [] ms
  simp only [List.length_nil, List.nil_append] at h
  rw [layout, h]
  simp only [instrument, List.map_cons, List.cons_append, List.cons.injEq, true_and]
  exact tailI_flatMap ms

/-- for every generated `PipeN` of the source: its instrumented argument list denotes the
    model's `instrument` and its plain argument list the operators themselves -/
theorem pipe_rows_match_model (p : PromPipe) (hp : p ∈ RoGen.Prom.pipes) (ms : List (AnyM α)) (hl : ms.length = p.arity) :
    (some AnyM.before :: p.instr.map (interp ms)) ++ [some AnyM.after] = (instrument ms).map some := by
  have hok := (pipes_ok).2 p hp
  have hi : p.instr = layout p.arity := hok.2.2.2.2.2.2.2.2.2.2.2.2.1
  rw [hi, ← hl]
  exact layout_is_instrument ms

end Ro.C19

#print axioms Ro.C19.transparent
#print axioms Ro.C19.standalone_transparent
#print axioms Ro.C19.licence_off_is_plain
#print axioms Ro.C19.erase_only_private_key
#print axioms Ro.C19.counters_pinned
#print axioms Ro.C19.counters_exact_partial
#print axioms Ro.C19.source_nonNil_of_script
#print axioms Ro.C19.in_is_source_values_sync
#print axioms Ro.C19.in_is_source_prefix
#print axioms Ro.C19.standalone_exact
#print axioms Ro.C19.standalone_head
#print axioms Ro.C19.next_counter_sound
#print axioms Ro.C19.error_counter_sound
#print axioms Ro.C19.complete_counter_sound
#print axioms Ro.C19.subscription_counter_sound
#print axioms Ro.C19.lag_observer_sound
#print axioms Ro.C19.subscribe_runs
#print axioms Ro.C19.totals_subs
#print axioms Ro.C19.totals_out
#print axioms Ro.C19.transparency_fails_on_nil_context
#print axioms Ro.C19.processing_observation_missing
#print axioms Ro.C19.pipes_ok
#print axioms Ro.C19.wrap_ok
#print axioms Ro.C19.licence_ok
#print axioms Ro.C19.wrappers_ok
#print axioms Ro.C19.layout_is_instrument
#print axioms Ro.C19.pipe_rows_match_model
#print axioms Ro.C19.counters_exact_static
#print axioms Ro.C19.every_stage_related
#print axioms Ro.C19.driver_results_transparent
#print axioms Ro.Prom.stageTable_ok
#print axioms Ro.Prom.standalone_related
#print axioms Ro.Prom.parseChain_related
#print axioms Ro.Prom.transparent_related
#print axioms Ro.Prom.plain_related
#print axioms Ro.Prom.tinv_run
#print axioms Ro.Prom.pairIgnoreElements
#print axioms Ro.Prom.pairMapTo
#print axioms Ro.Prom.pairHead
#print axioms Ro.Prom.pairElementAt
#print axioms Ro.Prom.pairElementAtOrDefault
#print axioms Ro.Prom.pairOnErrorReturn
#print axioms Ro.Prom.pairThrowIfEmpty
#print axioms Ro.Prom.pairSum
#print axioms Ro.Prom.pairClamp
#print axioms Ro.Prom.pairMaterializeDematerialize
#print axioms Ro.Prom.pairFind
#print axioms Ro.Prom.pairSkipWhile
#print axioms Ro.Prom.pairTakeWhile
#print axioms Ro.Prom.pairFirst
#print axioms Ro.Prom.pairMapErr
#print axioms Ro.Prom.pairScan
#print axioms Ro.Prom.pairDistinctBy
#print axioms Ro.Prom.pairTail
#print axioms Ro.Prom.pairMin
#print axioms Ro.Prom.pairLast
#print axioms Ro.Prom.pairReduce
#print axioms Ro.Prom.pairSkipLast
#print axioms Ro.Prom.pairCntNext
#print axioms Ro.Prom.pairCntError
#print axioms Ro.Prom.pairCntComplete
#print axioms Ro.Prom.pairCntSub
#print axioms Ro.Prom.pairLag
#print axioms Ro.Prom.pairId
#print axioms Ro.Prom.pairMap
#print axioms Ro.Prom.pairFilter
#print axioms Ro.Prom.pairTake
#print axioms Ro.Prom.pairSkip
#print axioms Ro.Prom.pairStartWith
#print axioms Ro.Prom.pairEndWith
#print axioms Ro.Prom.pairDefaultIfEmpty
#print axioms Ro.Prom.pairTakeLast
#print axioms Ro.Prom.pairEmpty
#print axioms Ro.Prom.max_emits_nil

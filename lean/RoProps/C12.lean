/-
  C12 — pipelines are reusable recipes.
  A machine has no state outside `init`: `runOp m mode sub raw` is a function of its arguments, so
  a second (third, concurrent) subscription of the same pipeline, or the same operator value
  applied to another source, behaves like a first subscription of a fresh one — `resubscribe_same`
  is `rfl`. The content of the property is whether that is the right model of the Go operator,
  i.e. whether a subscription writes only to variables declared inside the subscribe closure:
  the `stateRows` of the regenerated table (writes from the application or subscription scope to a
  variable of an outer scope), decided by the kernel on every run.
  Found on the pinned tree and repaired (fix commits 11bf135, fd0e106): `MergeMapIWithContext` (index
  `i` in the application scope) and `OnErrorResumeNextWith` (captured slice rewritten per
  application); `ShareWithConfig` is hot by definition.
-/
import RoModel.Machine
import RoModel.FactPreds
import RoGen.Catalogue
import RoGen.BuildTime
namespace Ro.C12
open Ro Ro.Facts

/-- every subscription of a machine-modelled pipeline sees the same run -/
theorem resubscribe_same {σ α β : Type} (m : Machine σ α β) (mode : SrcMode) (sub : Ctx) (raw : List (Notif α))
    (k : Nat) : (List.replicate k (runOp m mode sub raw).out) = (List.range k).map (fun _ => (runOp m mode sub raw).out) := by
  induction k with
  | zero => rfl
  | succ n ih => simp [List.replicate_succ', List.range_succ, ih]

/-- laziness: a machine subscribes to its source at most once per subscription, never at construction -/
theorem subs_le_one {σ α β : Type} (m : Machine σ α β) : m.subs ≤ 1 := by
  unfold Machine.subs; split <;> simp

theorem table_ok : RoGen.Catalogue.table.all c12RowOk = true := by decide

/-- the operators with hoisted state are exactly the listed ones -/
theorem hoisted_state_rows :
    ((RoGen.Catalogue.table.filter (fun r => !r.stateRows.isEmpty)).map (·.name)).all
      (["ShareWithConfig"].contains ·) = true := by decide

/-- no helper function that an operator value obtains a per-item function from (a function that returns a function
    literal and is not itself called once per subscription) lets the returned literal write to a variable of its
    own body: nothing is shared between the subscriptions, and the sources, an operator value is applied to
    (go/extract/closures.go; also method calls on captured fresh objects, delete / clear / copy) -/
theorem factory_state_rows : RoGen.Catalogue.factoryStateRows = [] := by decide

/-- building a pipeline does nothing: outside its subscribe functions no operator of operator_*.go reads the clock or a
    random source, or creates a mutex / once / channel / subscription / subject / derived context / atomic (an object every
    subscription of the observable value would share) — except `Share*`, hot by definition (go/extract/buildtime.go) -/
theorem buildtime_rows : RoGen.BuildTime.rows.all buildRowOk = true := by decide

/-- non-vacuity: the predicate refuses a deadline computed from the clock when the operator is applied to its source -/
example : buildRowOk { fn := "ContextWithTimeout", what := "time.Now", scope := "application", file := "operator_context.go", line := 62 } = false := by decide

end Ro.C12

#print axioms Ro.C12.resubscribe_same
#print axioms Ro.C12.subs_le_one
#print axioms Ro.C12.table_ok
#print axioms Ro.C12.hoisted_state_rows
#print axioms Ro.C12.factory_state_rows
#print axioms Ro.C12.buildtime_rows

/-
  C02 (a) — an observer's callbacks never overlap: the concurrent kernel.

  `Kernel.Conc.step` interprets the statement-language programs of subscriberImpl /
  subscriptionImpl (`Kernel.Expected`, proved equal to the programs regenerated from the Go
  sources: RoProps/KernelTie.lean) for any number of threads, any scripts of API calls
  {Next, Error, Complete, Unsubscribe, Add, Wait, IsClosed} and any schedule (`List Tid`).

  * safe and eventually-safe mode: in every reachable state at most one thread is between
    callback-begin and callback-end (invariant: a thread's control state says "holds mu" iff the
    mutex names it the owner, and whoever is inside or about to call the destination holds mu).
  * any mode (in particular the no-op mutex of the unsafe mode) under the single-producer
    hypothesis: same conclusion, because only a thread whose current call is Next/Error/Complete
    can reach the destination.
  * without that hypothesis the unsafe mode does overlap (witness below): that is its documented
    contract ("not safe for concurrent use"), not a deviation.
-/
import RoProofs.Kernel.Producer
import RoProofs.Kernel.WellLockedSound
import RoProofs.Kernel.Overlap
import RoProps.KernelTie
namespace Ro.C02
open Ro.Kernel

/-- at most one thread is inside a callback -/
def OneInside (s : St) : Prop :=
  ∀ (t u : Tid) (th thu : Thread), s.threads[t]? = some th → s.threads[u]? = some thu →
    th.ctl.inside = true → thu.ctl.inside = true → t = u

/-- C02(a), safe / eventually-safe mode: every number of threads, scripts, schedule -/
theorem kernel_callbacks_never_overlap (mode : Mode) (hm : mode ≠ .unsafeMode) (destNil : Bool)
    (panicky : List FinId) (scripts : List (List ApiCall)) (sched : List Tid) :
    OneInside (run Expected.progs (init mode destNil panicky scripts) sched) := by
  intro t u th thu ht hu h1 h2
  have hi := sinv_reachable mode hm destNil panicky scripts sched
  exact hi.k.lock.excl hi.serial t u th thu ht hu (by simp [h1]) (by simp [h2])

/-- C02(a), any mode (the no-op mutex included) with one producer thread -/
theorem kernel_callbacks_never_overlap_single_producer (mode : Mode) (destNil : Bool)
    (panicky : List FinId) (scripts : List (List ApiCall)) (hsp : SingleProducer scripts) (sched : List Tid) :
    OneInside (run Expected.progs (init mode destNil panicky scripts) sched) := by
  intro t u th thu ht hu h1 h2
  have hi := uinv_reachable mode destNil panicky scripts hsp sched
  exact hi.prod.excl hi.k.lock hsp t u th thu ht hu (by simp [h1]) (by simp [h2])

/-- C02(a) on the history: scanning the log of any run, a callback begins only when none is running
    (`noOverlapLog`, the predicate the harness evaluates on the log recorded from the real subscriber) -/
theorem kernel_noOverlapLog (mode : Mode) (hm : mode ≠ .unsafeMode) (destNil : Bool)
    (panicky : List FinId) (scripts : List (List ApiCall)) (sched : List Tid) :
    noOverlapLog (run Expected.progs (init mode destNil panicky scripts) sched).sh.log = true := by
  have := run_inv (progs := Expected.progs) (fun s => SInv (idBound scripts) s ∧ OvInv s)
    (fun _ _ _ hi h => ⟨hi.1.step h, hi.2.step hi.1.k.lock (hi.1.k.lock.excl hi.1.serial) h⟩) sched
    (init mode destNil panicky scripts) ⟨⟨KInv.init .., hm, GramInv.init ..⟩, OvInv.init ..⟩
  exact this.2.ok

/-- … and in any mode with one producer thread -/
theorem kernel_noOverlapLog_single_producer (mode : Mode) (destNil : Bool) (panicky : List FinId)
    (scripts : List (List ApiCall)) (hsp : SingleProducer scripts) (sched : List Tid) :
    noOverlapLog (run Expected.progs (init mode destNil panicky scripts) sched).sh.log = true := by
  have := run_inv (progs := Expected.progs) (fun s => UInv scripts s ∧ OvInv s)
    (fun _ _ _ hi h => ⟨hi.1.step hsp h, hi.2.step hi.1.k.lock (hi.1.prod.excl hi.1.k.lock hsp) h⟩) sched
    (init mode destNil panicky scripts) ⟨⟨KInv.init .., ProdInv.init .., GramInv.init ..⟩, OvInv.init ..⟩
  exact this.2.ok

/-- the lock discipline behind it: in safe / eventually-safe mode a thread's control state holds
    `mu` exactly when the mutex names it the owner, and every thread inside a callback holds `mu` -/
theorem kernel_inside_holds_mu (mode : Mode) (hm : mode ≠ .unsafeMode) (destNil : Bool)
    (panicky : List FinId) (scripts : List (List ApiCall)) (sched : List Tid) (t : Tid) (th : Thread)
    (ht : (run Expected.progs (init mode destNil panicky scripts) sched).threads[t]? = some th)
    (hin : th.ctl.inside = true) :
    (run Expected.progs (init mode destNil panicky scripts) sched).sh.mu = some t := by
  have hi := sinv_reachable mode hm destNil panicky scripts sched
  have a := local_of_all lfArmedHolds_all (hi.k.lock.inReach t th ht)
  simp only [lfArmedHolds, hin, Bool.true_or, Bool.not_true, Bool.false_or] at a
  exact (hi.k.lock.own .mu t th ht (hi.serial.noLock _)).mp a

/-- the subscription's lock likewise, in every mode: whoever executes a statement that reads or
    writes `done` / `finalizers` owns `subMu` -/
theorem kernel_subscription_state_under_lock (mode : Mode) (destNil : Bool)
    (panicky : List FinId) (scripts : List (List ApiCall)) (sched : List Tid) (t : Tid) (th : Thread)
    (ht : (run Expected.progs (init mode destNil panicky scripts) sched).threads[t]? = some th)
    (hh : th.ctl.head = .stmt .setDone ∨ th.ctl.head = .stmt .swapFinalizers ∨
          th.ctl.head = .stmt .appendFinalizer ∨ th.ctl.head = .stmt .runNow) :
    (run Expected.progs (init mode destNil panicky scripts) sched).sh.subMu = some t := by
  have hi := kinv_reachable mode destNil panicky scripts sched
  have a := local_of_all lfSubHeld_all (hi.lock.inReach t th ht)
  have : th.ctl.holds .subMu = true := by
    rcases hh with h | h | h | h <;> simpa [lfSubHeld, h] using a
  exact (hi.lock.own .subMu t th ht rfl).mp this

/-! ### the same for arbitrary programs that keep the lock discipline -/

/-- soundness of the decidable lock-discipline checker `wellLocked` (RoModel/Kernel/WellLocked.lean)
    for ARBITRARY program tables: accepted ⇒ in safe / eventually-safe mode at most one thread is
    inside a callback, for every number of threads, scripts and schedule -/
theorem wellLocked_programs_never_overlap (table : List (Meth × Prog)) (hw : wellLocked table = true)
    (mode : Mode) (hm : mode ≠ .unsafeMode) (destNil : Bool) (panicky : List FinId)
    (scripts : List (List ApiCall)) (sched : List Tid) :
    OneInside (run (lookup table) (init mode destNil panicky scripts) sched) :=
  fun t u th thu ht hu h1 h2 => wellLocked_sound table hw mode hm destNil panicky scripts sched t u th thu ht hu h1 h2

/-- the programs regenerated from the Go sources on this run keep the discipline (evaluated by the
    Lean kernel on `RoGen.Kernel.table` itself; survives any rewrite of the kernel that keeps it) -/
theorem regenerated_programs_wellLocked : wellLocked RoGen.Kernel.table = true := by decide

/-- hence C02(a) for the regenerated programs, independently of the program-equality tie -/
theorem regenerated_callbacks_never_overlap (mode : Mode) (hm : mode ≠ .unsafeMode) (destNil : Bool)
    (panicky : List FinId) (scripts : List (List ApiCall)) (sched : List Tid) :
    OneInside (run (lookup RoGen.Kernel.table) (init mode destNil panicky scripts) sched) :=
  wellLocked_programs_never_overlap _ regenerated_programs_wellLocked mode hm destNil panicky scripts sched

-- the checker is not vacuous: it rejects a Next that calls the destination after unlocking, and one
-- that returns with the lock held
example : wellLocked [(.subNext, [.lock .mu, .unlock .mu, .callDest .next])] = false := by decide
example : wellLocked [(.subNext, [.lock .mu, .ifLoadEq .status 0 [.callDest .next] [.ret], .unlock .mu])] = false := by decide
example : wellLocked Expected.table = true := by decide

/-! ### non-vacuity and the witness for the unsafe mode -/

-- a reachable state in which a thread IS inside a callback (safe mode, two producers)
example : ((run Expected.progs (init .safe false [] [[.next 1], [.next 2]]) [0, 0, 0, 0, 0, 0, 1, 1, 1]).threads.map
    (·.ctl.inside)) = [true, false] := by decide
-- … and the other producer is blocked on the lock there
example : step Expected.progs (run Expected.progs (init .safe false [] [[.next 1], [.next 2]]) [0, 0, 0, 0, 0, 0, 1, 1, 1]) 1 = none := by
  decide
-- single-producer hypothesis is satisfiable and not trivial
example : SingleProducer [[.next 1, .complete], [.unsubscribe], [.add 1, .isClosed]] := by
  intro t u sct scu ht hu ⟨c, hc, hp⟩ ⟨c', hc', hp'⟩
  match t, u with
  | 0, 0 => rfl
  | 0, 1 => simp at hu; subst hu; simp at hc'; subst hc'; cases hp'
  | 0, 2 => simp at hu; subst hu; simp at hc'; rcases hc' with rfl | rfl <;> cases hp'
  | 1, _ => simp at ht; subst ht; simp at hc; subst hc; cases hp
  | 2, _ => simp at ht; subst ht; simp at hc; rcases hc with rfl | rfl <;> cases hp
  | t + 3, _ => simp at ht
  | 0, u + 3 => simp at hu

/-- witness: with the no-op mutex and two producers the callbacks DO overlap (both inside) -/
theorem unsafe_two_producers_overlap_witness :
    ((run Expected.progs (init .unsafeMode false [] [[.next 1], [.next 2]]) [0, 0, 0, 0, 0, 0, 1, 1, 1, 1, 1, 1]).threads.map
      (·.ctl.inside)) = [true, true] := by decide

end Ro.C02

#print axioms Ro.KernelTie.progs_are_the_source
#print axioms Ro.KernelTie.subscriber_ctor_is_the_source
#print axioms Ro.KernelTie.modes_are_the_source
#print axioms Ro.KernelTie.mutexes_are_the_source
#print axioms Ro.C02.kernel_callbacks_never_overlap
#print axioms Ro.C02.kernel_callbacks_never_overlap_single_producer
#print axioms Ro.C02.kernel_noOverlapLog
#print axioms Ro.C02.kernel_noOverlapLog_single_producer
#print axioms Ro.C02.wellLocked_programs_never_overlap
#print axioms Ro.C02.regenerated_programs_wellLocked
#print axioms Ro.C02.regenerated_callbacks_never_overlap
#print axioms Ro.C02.kernel_inside_holds_mu
#print axioms Ro.C02.kernel_subscription_state_under_lock
#print axioms Ro.C02.unsafe_two_producers_overlap_witness

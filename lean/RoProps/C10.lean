/-
  C10 — subjects follow their sequential definition and are linearizable.

  Model: RoModel/Subjects.lean (one step function per kind, a line-by-line reading of
  subject_*.go and of the subscriber gate).  Definition: RoModel/Spec/Subjects.lean.
  Proofs: RoProofs/Subjects*.lean, RoProofs/Atomic.lean.

  (1) sequential refinement — every kind, every buffer size, every operation sequence over
      {Next v, Error e, Complete, Subscribe i, Unsubscribe i}, every subscriber:
      received trace = the definition (`*_definition`); who is registered and the status are the
      definition's; observers are dropped at termination and at unsubscription; unicast admits one
      subscriber at a time; every subscriber's trace obeys the observable grammar (C01(c)).
      Pinned-tree deviation: unicast discards its backlog for a subscriber arriving after
      Complete/Error (subject_unicast.go:68-77): `unicast_definition_partial` +
      `unicast_late_deviation` + the concrete `unicast_late_witness`.
  (2) atomicity meta-theorem (`atomic_linearizable`): an object whose every operation performs
      exactly one atomic action between call and return is linearizable, real-time order
      respected, any number of threads, any schedule — and its instance `subjects_linearizable`:
      for such executions of a subject, every subscriber's trace is the definition applied to the
      linearization order.  The premise holds for Next/Error/Complete/Subscribe of publish,
      behavior, replay and async: their whole effect (status, stored values, registration, and
      every subscriber callback of a broadcast) sits inside `s.mu` — fact table
      RoGen.SubjectLocks, `subjects_wellLocked`.  It does NOT hold for `Unsubscribe` (no `s.mu`:
      subscriber.go:259-263) nor for unicast's deferred delivery; the micro-step witnesses
      `unsubscribe_not_atomic_witness` and `unicast_lost_value_witness` show histories of the model
      that no sequential order explains.
-/
import RoProofs.SubjectsUnicastSpec
import RoProofs.Atomic
import RoProofs.SubjectsMicro
import RoProofs.SubjectsX
import RoGen.SubjectLocks
namespace Ro.C10
open Ro Ro.Subj Ro.Subj.Spec

variable {α : Type}

/-! ## (1) the sequential definition -/

theorem publish_definition (ops : List (Op α)) (i : Nat) :
    ((run .publish ops).sub i).got = Spec.publish ops i := publish_refines ops i

theorem behavior_definition (init : α) (ops : List (Op α)) (i : Nat) :
    ((run (.behavior init) ops).sub i).got = Spec.behavior init ops i := behavior_refines init ops i

theorem replay_definition (cap : Option Nat) (ops : List (Op α)) (i : Nat) :
    ((run (.replay cap) ops).sub i).got = Spec.replay cap ops i := replay_refines cap ops i

theorem async_definition (ops : List (Op α)) (i : Nat) :
    ((run .async ops).sub i).got = Spec.async ops i := async_refines ops i

/-- unicast: the pinned tree follows the definition in which a late subscriber gets only the
    stored terminal — every buffer size, every sequence, every subscriber -/
theorem unicast_definition_pinned (cap : Option Nat) (ops : List (Op α)) (i : Nat) :
    ((run (.unicast cap) ops).sub i).got = Spec.unicastPinned cap ops i := unicast_refines_pinned cap i ops

/- Full statement (does NOT hold on the pinned tree, see `unicast_late_witness`):
     ∀ cap ops i, ((run (.unicast cap) ops).sub i).got = Spec.unicast cap ops i            -/

/-- unicast against the definition, outside the one excluded class (a subscriber arriving after
    termination while a backlog is queued; `lateWithBacklog` is a decidable function of the input) -/
theorem unicast_definition_partial (cap : Option Nat) (ops : List (Op α)) (i : Nat)
    (h : lateWithBacklog cap ops i = false) :
    ((run (.unicast cap) ops).sub i).got = Spec.unicast cap ops i := unicast_refines_partial cap i ops h

/-- inside the excluded class the model (= the pinned code) misses exactly the backlog -/
theorem unicast_late_deviation (cap : Option Nat) (ops : List (Op α)) (i : Nat)
    (h : lateWithBacklog cap ops i = true) :
    ∃ pre c post, splitSub i ops = some (pre, c, post) ∧ (ufold cap pre).queue ≠ [] ∧
      Spec.unicast cap ops i = nexts (ufold cap pre).queue ++ ((run (.unicast cap) ops).sub i).got :=
  Ro.Subj.unicast_late_deviation cap i ops h

/-- witness (replayed on the real code: known finding `unicast late subscriber`):
    Next 1, Next 2, Complete, Subscribe 0 on an unbounded unicast subject -/
theorem unicast_late_witness :
    let ops : List (Op Int) := [.next ⟨[7, 1], false⟩ 1, .next ⟨[7, 2], false⟩ 2, .complete ⟨[7, 3], false⟩,
                                .subscribe 0 ⟨[7, 4], false⟩]
    ((run (.unicast none) ops).sub 0).got = [.complete ⟨[7, 4], false⟩] ∧
    Spec.unicast none ops 0 = [.next ⟨[7, 1], false⟩ 1, .next ⟨[7, 2], false⟩ 2, .complete ⟨[7, 4], false⟩] ∧
    lateWithBacklog none ops 0 = true := by
  decide

/-- all kinds at once: the received trace is the definition's, the only exclusion being unicast's
    late subscriber with a backlog -/
theorem received_definition (k : Kind α) (ops : List (Op α)) (i : Nat)
    (h : ∀ cap, k = .unicast cap → lateWithBacklog cap ops i = false) :
    ((run k ops).sub i).got = Spec.received k ops i := by
  cases k with
  | publish => exact publish_refines ops i
  | behavior init => exact behavior_refines init ops i
  | replay cap => exact replay_refines cap ops i
  | async => exact async_refines ops i
  | unicast cap => exact unicast_refines_partial cap i ops (h cap rfl)

/-- C01(c): every subscriber of every subject receives values, then at most one terminal, then
    nothing — every kind, buffer size, operation sequence (from the subscriber gate alone, so it
    also holds where unicast deviates from its definition) -/
theorem subscriber_grammar (k : Kind α) (ops : List (Op α)) (i : Nat) : Grammar ((run k ops).sub i).got :=
  Ro.Subj.subscriber_grammar k ops i

/-! ### registration, status, dropping of observers -/

theorem inv_run (k : Kind α) (ops : List (Op α)) : Inv (run k ops) := by
  cases k with
  | publish => exact multi_inv publishP publishP_law .publish publishStep_eq ops
  | behavior init => exact multi_inv behaviorP behaviorP_law (.behavior init) behaviorStep_eq ops
  | replay cap => exact multi_inv (replayP cap) (replayP_law cap) (.replay cap) (replayStep_eq cap) ops
  | async => exact multi_inv asyncP asyncP_law .async asyncStep_eq ops
  | unicast cap => exact (uinv_runFrom cap ops _ (uinv_init cap)).inv

/-- the status (IsClosed / HasThrown / IsCompleted) is the definition's -/
theorem status_definition (k : Kind α) (ops : List (Op α)) : (run k ops).status = Spec.status ops := by
  cases k with
  | publish => exact multi_status publishP publishP_law .publish publishStep_eq ops
  | behavior init => exact multi_status behaviorP behaviorP_law (.behavior init) behaviorStep_eq ops
  | replay cap => exact multi_status (replayP cap) (replayP_law cap) (.replay cap) (replayStep_eq cap) ops
  | async => exact multi_status asyncP asyncP_law .async asyncStep_eq ops
  | unicast cap => exact unicast_status cap ops

theorem subscribed_multi (k : Kind α) (hk : ∀ cap, k ≠ .unicast cap) (ops : List (Op α)) (i : Nat) :
    Spec.subscribed k ops i = true ↔
      (match splitSub i ops with
       | none => False
       | some (pre, _, post) => ending (produced pre) = .never ∧ post.all (fun o => !isUnsub i o) = true
                                 ∧ ending (produced post) = .never) := by
  unfold Spec.subscribed
  cases splitSub i ops with
  | none => simp
  | some x =>
    obtain ⟨pre, c, post⟩ := x
    cases k with
    | unicast cap => exact absurd rfl (hk cap)
    | publish => cases he : ending (produced pre) <;> cases hp : ending (produced post) <;> simp [he, hp]
    | behavior init => cases he : ending (produced pre) <;> cases hp : ending (produced post) <;> simp [he, hp]
    | replay cap => cases he : ending (produced pre) <;> cases hp : ending (produced post) <;> simp [he, hp]
    | async => cases he : ending (produced pre) <;> cases hp : ending (produced post) <;> simp [he, hp]

/-- the registered observers (CountObservers / HasObserver) are exactly the subscribers the
    definition calls subscribed: subscribed to a live subject (unicast: and admitted), not
    unsubscribed since, subject not terminated since -/
theorem registered_definition (k : Kind α) (ops : List (Op α)) (i : Nat) :
    i ∈ (run k ops).observers ↔ Spec.subscribed k ops i = true := by
  cases k with
  | publish =>
    rw [subscribed_multi .publish (fun _ h => by cases h)]
    exact multi_registered publishP publishP_law .publish publishStep_eq ops i
  | behavior init =>
    rw [subscribed_multi (.behavior init) (fun _ h => by cases h)]
    exact multi_registered behaviorP behaviorP_law (.behavior init) behaviorStep_eq ops i
  | replay cap =>
    rw [subscribed_multi (.replay cap) (fun _ h => by cases h)]
    exact multi_registered (replayP cap) (replayP_law cap) (.replay cap) (replayStep_eq cap) ops i
  | async =>
    rw [subscribed_multi .async (fun _ h => by cases h)]
    exact multi_registered asyncP asyncP_law .async asyncStep_eq ops i
  | unicast cap => exact unicast_registered cap i ops

/-- no subscriber is registered twice (so `CountObservers` counts subscribers) -/
theorem observers_nodup (k : Kind α) (ops : List (Op α)) : (run k ops).observers.Nodup := (inv_run k ops).nodup

/-- **observers are dropped at termination** -/
theorem observers_dropped_at_termination (k : Kind α) (ops : List (Op α))
    (h : (run k ops).status ≠ .active) : (run k ops).observers = [] := (inv_run k ops).closed h

theorem unsubscribe_drops_multi (P : MP α) {s : State α} (h : Inv s) (i : Nat) :
    i ∉ (multiStep P s (.unsubscribe i)).observers := by
  cases hu : (s.sub i).used with
  | false => rw [step_unsubscribe_unused P hu]; exact h.not_mem_of_unused hu
  | true =>
    by_cases hi : i ∈ s.observers
    · rw [step_unsubscribe_reg P h hi]; simp
    · have := (subUnsubscribe_unreg (s := s) (i := i) .delete (h.td_false hi)).1
      simp only [multiStep, hu, if_true, this]; exact hi

theorem unsubscribe_drops_unicast (cap : Option Nat) {s : State α} (h : UInv s) (i : Nat) :
    i ∉ (unicastStep cap s (.unsubscribe i)).observers := by
  cases hu : (s.sub i).used with
  | false => rw [ustep_unsubscribe_unused cap hu]; exact h.inv.not_mem_of_unused hu
  | true =>
    by_cases hi : i ∈ s.observers
    · rw [ustep_unsubscribe_reg cap h hi]; simp
    · have := (subUnsubscribe_unreg (s := s) (i := i) .clear (h.inv.td_false hi)).1
      simp only [unicastStep, hu, if_true, this]; exact hi

theorem run_snoc (k : Kind α) (ops : List (Op α)) (o : Op α) : run k (ops ++ [o]) = k.step (run k ops) o := by
  simp [run, runFrom, List.foldl_append]

/-- **observers are dropped at unsubscription** -/
theorem observers_dropped_at_unsubscription (k : Kind α) (ops : List (Op α)) (i : Nat) :
    i ∉ (run k (ops ++ [.unsubscribe i])).observers := by
  rw [run_snoc]
  have hI := inv_run k ops
  cases k with
  | publish => rw [show (Kind.publish : Kind α).step = multiStep publishP from publishStep_eq]; exact unsubscribe_drops_multi _ hI i
  | behavior init => rw [show (Kind.behavior init).step = multiStep behaviorP from behaviorStep_eq]; exact unsubscribe_drops_multi _ hI i
  | replay cap => rw [show (Kind.replay cap : Kind α).step = multiStep (replayP cap) from replayStep_eq cap]; exact unsubscribe_drops_multi _ hI i
  | async => rw [show (Kind.async : Kind α).step = multiStep asyncP from asyncStep_eq]; exact unsubscribe_drops_multi _ hI i
  | unicast cap => exact unsubscribe_drops_unicast cap (uinv_runFrom cap ops _ (uinv_init cap)) i

/-! ### subjects subscribed with a ready-made Subscriber (RoModel/SubjectsX.lean; kind=subjx) -/

/-- every state reached through plain operations and subscriptions made with a closed / self-closing Subscriber keeps
    the registration invariant of its kind (registered ⇒ used, open, teardown pending; no duplicates; nobody registered
    once terminated; unicast: at most one observer) -/
theorem subjx_invariant (k : Kind Int) (xs : List XOp) : Inv (runX k xs).1 := (kinv_runX k xs).toInv

theorem subjx_unicast_one_at_a_time (cap : Option Nat) (xs : List XOp) : (runX (.unicast cap) xs).1.observers.length ≤ 1 :=
  UInv.one (kinv_runX (.unicast cap) xs)

/-- a Subscriber that is already closed when it is handed to Subscribe is not registered when Subscribe returns — whatever
    came before, for every subject kind: the subject goes on as if it had never come -/
theorem dead_subscriber_never_registered (k : Kind Int) (xs : List XOp) (i : Nat) (c : Ctx) :
    i ∉ (runX k (xs ++ [.dead i c])).1.observers := by
  rw [runX_snoc]
  have hk := kinv_runX k xs
  generalize runX k xs = st at hk
  obtain ⟨s, armed⟩ := st
  exact Ro.Subj.unsubscribe_drops k (kinv_rewrite k (kinv_step k hk _) _ _ _) i

-- non-vacuity: a replay subject with two values; the dead subscriber is handed both (refused: dropped), is not registered,
-- and the next subscriber is served as usual
example : let s := (runX (.replay (some 2)) [.plain (.next {} 1), .plain (.next {} 2), .dead 0 {}, .plain (.subscribe 1 {})]).1
    s.observers = [1] ∧ (s.sub 0).got = [] ∧ s.drops.length = 2 ∧ (s.sub 1).got.length = 2 := by decide

/-- **unicast admits one subscriber at a time** -/
theorem unicast_one_at_a_time (cap : Option Nat) (ops : List (Op α)) :
    (run (.unicast cap) ops).observers.length ≤ 1 := unicast_one_observer cap ops

/-- the `unsubscribeAll()` that Error/Complete run after `s.mu.Unlock()` never finds anything to
    delete: every subscriber removed itself during the broadcast (so the terminal operations of
    the four multicast subjects have no effect outside the critical section) -/
theorem unsubscribeAll_is_noop {s : State α} (h : Inv s) (st : Status) (n : Notif α) :
    (broadcastTerminal { s with status := st } n).observers = [] := by
  rw [broadcastTerminal_eq (s := { s with status := st })
    (fun j hj => ⟨(h.live j hj).2.1, (h.live j hj).2.2⟩) h.nodup]

-- non-vacuity: replay(1), behavior, async and unicast on a concrete sequence with late subscribers
example : ((run (.replay (some 1)) ([.next {} 1, .next {} 2, .subscribe 0 {}, .next {} 3, .error {} (.user 1),
            .subscribe 1 ⟨[4], false⟩, .unsubscribe 0] : List (Op Int))).sub 0).got
    = [.next {} 2, .next {} 3, .error {} (.user 1)] := by decide
example : Spec.replay (some 1) ([.next {} 1, .next {} 2, .subscribe 0 {}, .next {} 3, .error {} (.user 1),
            .subscribe 1 ⟨[4], false⟩] : List (Op Int)) 1 = [.next {} 3, .error {} (.user 1)] := by decide
example : Spec.async ([.subscribe 0 {}, .next {} 1, .next {} 2, .complete {}, .subscribe 1 ⟨[9], false⟩] : List (Op Int)) 1
    = [.next {} 2, .complete ⟨[9], false⟩] := by decide
example : Spec.unicast (some 2) ([.next {} 1, .next {} 2, .next {} 3, .subscribe 0 {}, .subscribe 1 {}, .next {} 4,
            .unsubscribe 0, .next {} 5, .subscribe 2 {}] : List (Op Int)) 2 = [.next {} 5] := by decide
example : (run (.publish) ([.subscribe 0 {}, .subscribe 1 {}, .unsubscribe 0, .complete {}] : List (Op Int))).observers = [] := by decide

/-! ## (2) atomicity ⇒ linearizability -/

/-- the meta-theorem (RoProofs/Atomic.lean): any object, any number of threads, any schedule -/
theorem atomic_linearizable {σ ο ρ : Type} [DecidableEq ρ] (O : Lin.Obj σ ο ρ) (evs : List (Lin.Ev ο))
    (cfg : Lin.Cfg σ ο ρ) (h : Lin.Exec O evs cfg) :
    ∃ lin, Lin.isLinearization O cfg.hist lin = true ∧ Lin.finalState O cfg.hist lin = cfg.state :=
  Lin.atomic_linearizable O evs cfg h

theorem runSeq_subjectObj (k : Kind α) : ∀ (ops : List (Op α)) (s : State α),
    ((subjectObj k).runSeq s ops).1 = runFrom k s ops
  | [], _ => rfl
  | o :: ops, s => by
    simp only [Lin.Obj.runSeq, runFrom, List.foldl_cons]
    exact runSeq_subjectObj k ops _

/-- **subjects are linearizable wherever their operations are atomic**: in every execution in which
    each call performs its step as one atomic action, there is an order of the calls, compatible
    with real time, such that the subject is in the state the sequential run of that order gives —
    hence every subscriber has received exactly what the sequential definition says for that order,
    the registered observers and the status are the definition's for that order. -/
theorem subjects_linearizable (k : Kind α) (evs : List (Lin.Ev (Op α))) (cfg : Lin.Cfg (State α) (Op α) Unit)
    (h : Lin.Exec (subjectObj k) evs cfg) :
    ∃ lin, Lin.isLinearization (subjectObj k) cfg.hist lin = true ∧
      cfg.state = run k ((Lin.pick cfg.hist lin).map (·.op)) ∧
      (∀ i, (∀ cap, k = .unicast cap → lateWithBacklog cap ((Lin.pick cfg.hist lin).map (·.op)) i = false) →
        (cfg.state.sub i).got = Spec.received k ((Lin.pick cfg.hist lin).map (·.op)) i) ∧
      (∀ i, i ∈ cfg.state.observers ↔ Spec.subscribed k ((Lin.pick cfg.hist lin).map (·.op)) i = true) ∧
      cfg.state.status = Spec.status ((Lin.pick cfg.hist lin).map (·.op)) := by
  obtain ⟨lin, h1, h2⟩ := Lin.atomic_linearizable (subjectObj k) evs cfg h
  have hs : cfg.state = run k ((Lin.pick cfg.hist lin).map (·.op)) := by
    rw [← h2]; exact runSeq_subjectObj k _ _
  refine ⟨lin, h1, hs, ?_, ?_, ?_⟩
  · intro i hi; rw [hs]; exact received_definition k _ i hi
  · intro i; rw [hs]; exact registered_definition k _ i
  · rw [hs]; exact status_definition k _

/-! ### where the premise holds: the lock skeleton of the Go methods (regenerated from the source) -/

open Ro.Facts in
/-- a method does everything under `s.mu`: it starts by taking the lock; every access to a field
    of the subject and every broadcast happens while it is held; once it is released nothing but
    `unsubscribeAll()` (a no-op, `unsubscribeAll_is_noop`) follows -/
def wellLocked (m : LockRow) : Bool :=
  let rec go (held : Bool) (released : Bool) : List String → Bool
    | [] => held == false || m.deferUnlock
    | "lock" :: r => !held && !released && go true released r
    | "unlock" :: r => held && go false true r
    | "access" :: r => held && go held released r
    | "broadcast" :: r => held && go held released r
    | "deliver" :: r => held && go held released r
    | "teardown" :: r => held && go held released r
    | "drop" :: r => go held released r
    | "unsubscribeAll" :: r => !held && released && go held released r
    | _ :: _ => false
  go false false m.skeleton

/-- the four multicast subjects: Subscribe / Next / Error / Complete are each one critical section -/
theorem subjects_wellLocked :
    (RoGen.SubjectLocks.table.filter (fun m => m.subject != "unicast")).all wellLocked = true ∧
    (["publish", "behavior", "replay", "async"].all fun sj =>
      ["SubscribeWithContext", "NextWithContext", "ErrorWithContext", "CompleteWithContext"].all fun me =>
        RoGen.SubjectLocks.table.any fun m => m.subject == sj && m.method == me) = true := by
  decide

/-- unicast is *not* of that shape: its Next / Error / Complete deliver after releasing the lock
    (`defer tmp.NextWithContext(ctx, value)`), which is what `Unicast2` models -/
theorem unicast_delivers_outside_lock :
    (RoGen.SubjectLocks.table.filter (fun m => m.subject == "unicast" && m.method != "SubscribeWithContext")).all
      (fun m => m.deferredDeliver) = true := by
  decide

open Ro.Facts in
/-- unicast `SubscribeWithContext` (since /repo 5f819fc the unlocks are explicit): the method starts by taking `s.mu`; every access to
    the subject's fields and every delivery to the new subscriber - the stored terminal, the rejection, the REPLAY of the queued values -
    comes before the last release of the lock; the teardown (which takes `s.mu` itself) is registered after it -/
def unicastSubscribeOk (m : LockRow) : Bool :=
  let sk := m.skeleton
  let lastUnlock := (sk.zipIdx.filter (fun p => p.1 == "unlock")).map (·.2) |>.getLast?
  match lastUnlock with
  | none => false
  | some u =>
    sk.head? == some "lock" &&
    (sk.zipIdx.all fun p =>
      if p.1 == "deliver" || p.1 == "access" || p.1 == "broadcast" then decide (p.2 < u)
      else if p.1 == "teardown" then decide (u < p.2)
      else if p.1 == "lock" then p.2 == 0
      else p.1 == "unlock" || p.1 == "drop") &&
    sk.contains "teardown" && !m.deferUnlock

/-- the replay of a unicast subject's backlog to a new subscriber happens inside the critical section of `Subscribe` (so a value a
    producer sends meanwhile is delivered after the backlog and the producer's Next returns only then: the premise of kind=nextret),
    and the teardown is registered outside it (so a subscriber that is closed by then does not make `Subscribe` wait for itself) -/
theorem unicast_subscribe_locked_replay :
    (RoGen.SubjectLocks.table.filter (fun m => m.subject == "unicast" && m.method == "SubscribeWithContext")).all unicastSubscribeOk = true ∧
    (RoGen.SubjectLocks.table.any fun m => m.subject == "unicast" && m.method == "SubscribeWithContext") = true := by
  decide

-- non-vacuity: a replay moved behind the release of the lock is rejected; so is a teardown registered while the lock is held
example : unicastSubscribeOk (⟨"unicast", "SubscribeWithContext", "", 0, false, false,
    ["lock", "access", "access", "unlock", "teardown", "deliver"]⟩ : Ro.Facts.LockRow) = false := by decide
example : unicastSubscribeOk (⟨"unicast", "SubscribeWithContext", "", 0, true, false,
    ["lock", "access", "deliver", "access", "teardown"]⟩ : Ro.Facts.LockRow) = false := by decide

/-! ### where it does not: micro-step witnesses -/

/-- **Unsubscribe is not atomic with respect to a broadcast.**  publish, subscribers 0 and 1.
    `Next 5` is broadcasting: it has delivered to 0; then `Unsubscribe 0` runs to completion, then
    `Unsubscribe 1` runs to completion (neither needs `s.mu`); then the broadcast reaches 1, which
    refuses the value.  Observed: 0 got the value, 1 did not, and `Unsubscribe 0` returned before
    `Unsubscribe 1` was called.  No sequential order of {Next 5, Unsubscribe 0, Unsubscribe 1} with
    `Unsubscribe 0` before `Unsubscribe 1` explains that. -/
theorem unsubscribe_not_atomic_witness :
    let c : Ctx := {}
    let s0 := run (.publish) ([.subscribe 0 c, .subscribe 1 c] : List (Op Int))
    let s1 := visitNext s0 0 c 5                       -- broadcast, first iteration
    let s2 := publishStep s1 (.unsubscribe 0)          -- another goroutine, call … return
    let s3 := publishStep s2 (.unsubscribe 1)          -- after that, call … return
    let s4 := visitNext s3 1 c 5                       -- broadcast, second iteration
    ((s4.sub 0).got = [.next c 5] ∧ (s4.sub 1).got = []) ∧
    (∀ ord ∈ ([[.next c 5, .unsubscribe 0, .unsubscribe 1], [.unsubscribe 0, .next c 5, .unsubscribe 1],
               [.unsubscribe 0, .unsubscribe 1, .next c 5]] : List (List (Op Int))),
      ¬ (((runFrom .publish s0 ord).sub 0).got = [.next c 5] ∧ ((runFrom .publish s0 ord).sub 1).got = [])) := by
  decide

/-- the micro-step reading used for these witnesses and by the history checker (`Kind.micro`: the
    part before the broadcast loops, one visit per registered subscriber and loop, the part after)
    is the atomic step when nothing runs in between — every multicast kind, state and operation -/
theorem micro_agrees (k : Kind α) (s : State α) (o : Op α) (m : Micro α) (h : k.micro s o = some m) :
    m.run = k.step s o := Ro.Subj.micro_agrees k s o m h

/-- **async: half of a completion.**  Subscriber 0 is registered, 1 is the stored value.  `Complete`
    first broadcasts the value, then the completion; `Unsubscribe 0` runs between the two: the
    subscriber has received the value and never gets the completion.  Neither order of
    {Complete, Unsubscribe 0} explains that. -/
theorem async_partial_flush_witness :
    let c : Ctx := {}
    let s0 := run (.async) ([.subscribe 0 c, .next c 1] : List (Op Int))
    ((Kind.async).micro s0 (.complete c)).map (fun m => m.visits.length) = some 2 ∧
    -- value, Unsubscribe 0, completion:
    ((Kind.async).micro s0 (.complete c)).map
        (fun m => ((m.runWith 1 (fun s => asyncStep s (.unsubscribe 0))).sub 0).got) = some [.next c 1] ∧
    ((runFrom .async s0 [.complete c, .unsubscribe 0]).sub 0).got = [.next c 1, .complete c] ∧
    ((runFrom .async s0 [.unsubscribe 0, .complete c]).sub 0).got = [] := by
  decide

/-- **unicast can lose a value.**  Subscriber 0 holds the subject.  `Next 5` captures it under the
    lock; `Unsubscribe 0` runs; the deferred delivery finds the subscriber closed: the value goes
    to the drop hook — neither delivered (as if Next came first) nor queued for the next
    subscriber (as if Unsubscribe came first). -/
theorem unicast_lost_value_witness :
    let c : Ctx := {}
    let s0 := run (.unicast none) ([.subscribe 0 c] : List (Op Int))
    let lp := unicastLocked none s0 (.next c 5)                   -- Next 5: the part under s.mu
    let s2 := unicastStep none lp.1 (.unsubscribe 0)              -- Unsubscribe 0, call … return
    let s3 := match lp.2 with | some p => unicastDeliver s2 p | none => s2   -- Next 5: deferred delivery
    let s4 := unicastStep none s3 (.subscribe 1 c)                -- later: the next subscriber
    ((s4.sub 0).got = [] ∧ (s4.sub 1).got = [] ∧ s4.drops = [.next c 5]) ∧
    ((run (.unicast none) ([.subscribe 0 c, .next c 5, .unsubscribe 0, .subscribe 1 c] : List (Op Int))).sub 0).got = [.next c 5] ∧
    ((run (.unicast none) ([.subscribe 0 c, .unsubscribe 0, .next c 5, .subscribe 1 c] : List (Op Int))).sub 1).got = [.next c 5] := by
  decide

/-- with atomic steps the same calls are fine (the micro-step order is what breaks it) -/
example : broadcastNext (run (.publish) ([.subscribe 0 {}, .subscribe 1 {}] : List (Op Int))) {} 5
    = (run (.publish) ([.subscribe 0 {}, .subscribe 1 {}] : List (Op Int))).observers.foldl (fun s i => visitNext s i {} 5)
        (run (.publish) ([.subscribe 0 {}, .subscribe 1 {}] : List (Op Int))) := rfl

end Ro.C10

#print axioms Ro.C10.publish_definition
#print axioms Ro.C10.behavior_definition
#print axioms Ro.C10.replay_definition
#print axioms Ro.C10.async_definition
#print axioms Ro.C10.unicast_definition_pinned
#print axioms Ro.C10.unicast_definition_partial
#print axioms Ro.C10.unicast_late_deviation
#print axioms Ro.C10.unicast_late_witness
#print axioms Ro.C10.received_definition
#print axioms Ro.C10.subscriber_grammar
#print axioms Ro.C10.status_definition
#print axioms Ro.C10.registered_definition
#print axioms Ro.C10.observers_nodup
#print axioms Ro.C10.observers_dropped_at_termination
#print axioms Ro.C10.observers_dropped_at_unsubscription
#print axioms Ro.C10.subjx_invariant
#print axioms Ro.C10.subjx_unicast_one_at_a_time
#print axioms Ro.C10.dead_subscriber_never_registered
#print axioms Ro.C10.unicast_one_at_a_time
#print axioms Ro.C10.unsubscribeAll_is_noop
#print axioms Ro.C10.atomic_linearizable
#print axioms Ro.C10.subjects_linearizable
#print axioms Ro.C10.subjects_wellLocked
#print axioms Ro.C10.unicast_subscribe_locked_replay
#print axioms Ro.C10.unicast_delivers_outside_lock
#print axioms Ro.C10.unsubscribe_not_atomic_witness
#print axioms Ro.C10.micro_agrees
#print axioms Ro.C10.async_partial_flush_witness
#print axioms Ro.C10.unicast_lost_value_witness

/-
  The tie (F) for the concurrent kernel: the statement-language programs that `Kernel.Conc.step`
  interprets in every theorem of C01(b), C02(a), C03, C06 (`Kernel.Expected.table`) are exactly the
  programs `go/extract/kernel.go` regenerates from subscriber.go / subscription.go / observer.go of
  the working tree on every run (`RoGen.Kernel.table`); likewise the mode ↦ (mutex, backpressure)
  table of `NewSubscriberWithConcurrencyMode`, what the two mutex types of internal/xsync do, and
  the shape of `observableImpl.SubscribeWithContext`. Anything the extractor does not recognise is
  an `unknown` statement / row, which makes these equalities false.
-/
import RoGen.Kernel
import RoModel.Kernel.Expected
import RoProofs.Kernel.Beq
namespace Ro.KernelTie
open Ro.Kernel

theorem progs_are_the_source : RoGen.Kernel.table = Expected.table :=
  Stmt.beqTable_eq _ _ (by decide)

theorem modes_are_the_source : RoGen.Kernel.modes = Expected.modes := by decide

theorem mutexes_are_the_source : RoGen.Kernel.mutexes = Expected.mutexes := by decide

theorem subscribe_wrapper_is_the_source : RoGen.Kernel.subscribeWrapper = Expected.subscribeWrapper := by decide

theorem collect_wrapper_is_the_source : RoGen.Kernel.collectWrapper = Expected.collectWrapper := by decide

theorem subscriber_ctor_is_the_source : RoGen.Kernel.subscriberCtor = Expected.subscriberCtor := by decide

/-- hence the interpreter runs the regenerated programs -/
theorem progs_eq : lookup RoGen.Kernel.table = Expected.progs := by
  rw [progs_are_the_source]; rfl

end Ro.KernelTie

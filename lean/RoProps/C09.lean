/-
  C09 — context flows from Subscribe through every callback and is never nil.
  (1) `CtxSafe.run` (RoProofs/CtxFlow.lean): a machine with a certificate — an invariant saying every
      context it stores is derived from the subscription context, each reaction emitting only
      derived contexts — delivers only contexts derived from the subscription context (hence never
      nil), for every raw script whose notifications carry derived contexts and both source modes.
      One certificate per operator machine (RoProofs/Ops/CtxSpecs.lean), under the contract of
      context-returning callbacks ("returns a context derived from the one it was given").
  (2) per-item provenance: the C04 specifications carry contexts, so "the value that stems from item i
      is delivered with item i's context (or the context the callback returned for it / stored with
      it)" is part of each `…_spec` theorem; for the pure pass-through machines `…_ctx_exact`.
  (3) that the machines forward the contexts the Go code forwards is the regenerated CtxFlow fact:
      the provenance of the context expression of every `destination.*WithContext(c, …)` call and
      every upstream `SubscribeWithContext(c, …)`, decided by the kernel on every run.
  Pinned tree: `Max` on an empty source emits a nil context (`max_ctx_witness`), `DefaultIfEmpty`
  uses context.Background() (`defaultIfEmpty_background_witness`), `ToChannel` hands its channel
  out with context.TODO() (table row) — known findings replayed by the check.
-/
import RoProofs.Ops.CtxSpecs
import RoModel.FactPreds
import RoGen.Catalogue
import RoProofs.TimedDelayCtx
namespace Ro.C09
open Ro Ro.Facts

theorem certified_machine {σ α β : Type} {m : Machine σ α β} {sub : Ctx} (cs : CtxSafe m sub) (mode : SrcMode)
    (raw : List (Notif α)) (hraw : ∀ x ∈ raw, x.ctx.derivedFrom sub) :
    ∀ n ∈ (runOp m mode sub raw).out, n.ctx.derivedFrom sub ∧ n.ctx.isNil = false :=
  fun n hn => ⟨cs.run mode raw hraw n hn, (cs.run mode raw hraw n hn).1⟩

theorem table_ok : RoGen.Catalogue.table.all c09RowOk = true := by decide

/-- every context expression that is not of a good provenance is one of the listed rows -/
theorem odd_rows_listed :
    (RoGen.Catalogue.table.all fun r => r.ctxRows.all fun c => c.prov.good || knownCtxRows.contains (r.name, c.kind, c.prov)) = true := by decide

/-- no context expression is literally nil or of unknown provenance -/
theorem no_nil_no_unknown :
    (RoGen.Catalogue.table.all fun r => r.ctxRows.all fun c => c.prov != .nilCtx && c.prov != .unknown && c.prov != .background) = true := by decide

/-! ### time-driven operators: Delay (the queue holds (context, notification) pairs — RoProofs/TimedDelayCtx.lean) -/

/-- whatever the timers do (any number, any firing order, early ones finding the queue empty), every (context,
    notification) pair Delay delivers is a pair its source sent: no notification travels with another one's context -/
theorem delay_keeps_context {K ν : Type} (emits : List (Nat × (K × ν))) (fires : List (Nat × Nat))
    (p : Nat × (K × ν)) (hp : p ∈ Ro.Timed.delayPopsG emits fires 0) : p.2 ∈ emits.map (·.2) :=
  Ro.Timed.delay_keeps_context emits fires p hp

/-- … in order: the k-th delivery is the k-th emission, context included -/
theorem delay_kth {γ : Type} (emits : List (Nat × γ)) (fires : List (Nat × Nat)) (k : Nat) (p : Nat × γ)
    (hk : (Ro.Timed.delayPopsG emits fires 0)[k]? = some p) : ∃ e, emits[k]? = some e ∧ e.2 = p.2 :=
  Ro.Timed.delay_kth emits fires k p hk

/-- the timed model the C16 theorems are about is the instance "payload = notification" of the same pop sequence -/
theorem delay_model_is_instance (emits : List (Nat × Ro.Timed.TN)) (fires : List (Nat × Nat)) :
    Ro.Timed.delayPops emits fires 0 = (Ro.Timed.delayPopsG emits fires 0).map (fun p => Ro.Timed.Ev.at p.1 p.2) :=
  Ro.Timed.delayPops_eq emits fires 0

end Ro.C09

#print axioms Ro.C09.certified_machine
#print axioms Ro.C09.table_ok
#print axioms Ro.C09.odd_rows_listed
#print axioms Ro.C09.no_nil_no_unknown
#print axioms Ro.C09.delay_keeps_context
#print axioms Ro.C09.delay_kth
#print axioms Ro.C09.delay_model_is_instance
#print axioms Ro.Timed.timerCtx_witness
#print axioms Ro.CtxSafe.run
#print axioms Ro.all_ctx
#print axioms Ro.bufferCount_ctx
#print axioms Ro.clamp_ctx
#print axioms Ro.contains_ctx
#print axioms Ro.count_ctx
#print axioms Ro.defaultIfEmpty_ctx
#print axioms Ro.dematerialize_ctx
#print axioms Ro.distinctBy_ctx
#print axioms Ro.distinctBy_ctx_exact
#print axioms Ro.elementAtOrDefault_ctx
#print axioms Ro.elementAt_ctx
#print axioms Ro.empty_ctx
#print axioms Ro.endWith_ctx
#print axioms Ro.filter_ctx
#print axioms Ro.filter_ctx_exact
#print axioms Ro.find_ctx
#print axioms Ro.first_ctx
#print axioms Ro.flatten_ctx
#print axioms Ro.head_ctx
#print axioms Ro.id_ctx
#print axioms Ro.id_ctx_exact
#print axioms Ro.ignoreElements_ctx
#print axioms Ro.last_ctx
#print axioms Ro.mapErr_ctx
#print axioms Ro.mapTo_ctx
#print axioms Ro.map_ctx
#print axioms Ro.materialize_ctx
#print axioms Ro.max_ctx_partial
#print axioms Ro.max_ctx_witness
#print axioms Ro.min_ctx
#print axioms Ro.onErrorReturn_ctx
#print axioms Ro.pairwise_ctx
#print axioms Ro.reduce_ctx
#print axioms Ro.scan_ctx
#print axioms Ro.skipLast_ctx
#print axioms Ro.skipWhile_ctx
#print axioms Ro.skip_ctx
#print axioms Ro.skip_ctx_exact
#print axioms Ro.startWith_ctx
#print axioms Ro.sum_ctx
#print axioms Ro.tail_ctx
#print axioms Ro.takeLast_ctx
#print axioms Ro.takeWhile_ctx
#print axioms Ro.take_ctx
#print axioms Ro.take_ctx_exact
#print axioms Ro.throwIfEmpty_ctx
#print axioms Ro.toMap_ctx
#print axioms Ro.toSlice_ctx
#print axioms Ro.defaultIfEmpty_background_witness
#print axioms Ro.defaultIfEmpty_background_not_allFrom

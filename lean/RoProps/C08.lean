/-
  C08 — backpressure: Next returns after downstream is done; queues are bounded FIFO.

  This file holds the HAND-OFF half (the synchronous half — per-step delivery counts of every
  synchronous operator and chain — is added by the integrator).

  ## hand-off

  `ObserveOn` / `SubscribeOn` (= `detachOn`, operator_utility.go:577-653) and `ToChannel`
  (operator_sink.go:118-181) as the `Pipe` transition system of RoModel/Chan.lean: a FIFO of
  capacity `cap`, a producer thread (the observer handed to the source: `ch <- n`, after a
  terminal `stop()`), a consumer thread (`for n := range ch { deliver n }`), and the thread that
  unsubscribes. Every theorem quantifies over every capacity (0 included — ToChannel allows it),
  both flavours, both source modes, every raw script (legal or not) and every schedule
  `List Tid` of the three threads; a consumer of arbitrary slowness, or one that stops, is a
  schedule in which `cons` is rare or absent.
-/
import RoProofs.Chan
import RoProofs.ChanShape
namespace Ro.C08
open Ro Ro.Chan

section handoff
variable {α : Type}

/-- FIFO without loss: at every reachable state
      what entered the producer's callbacks = sent ++ failed ++ (in the producer's hand)
      sent = consumed ++ (in the consumer's hand) ++ queued
    and what entered is a prefix of the gated script -/
theorem handoff_fifo (cfg : Cfg) (raw : List (Notif α)) (sched : List Tid) :
    let s := run cfg (init cfg raw) sched
    s.sent = s.got ++ chold s.cpc ++ s.q ∧ s.entered = s.sent ++ s.fails ++ hand s.ppc ∧
    (∃ t, s.entered ++ t = gate raw) ∧ s.q.length ≤ cfg.cap :=
  let h := inv_run cfg raw sched
  ⟨h.fifo, h.flow, h.pre, h.room⟩

/-- the consumer sees the producer's notifications in order, none missing; the terminal is last -/
theorem handoff_order (cfg : Cfg) (raw : List (Notif α)) (sched : List Tid) :
    let s := run cfg (init cfg raw) sched
    (∃ t, s.got ++ t = gate raw) ∧ (∀ l r x, s.got = l ++ x :: r → x.isTerminal = true → r = []) :=
  ⟨got_prefix (inv_run cfg raw sched), got_terminal_last (inv_run cfg raw sched)⟩

/-- ObserveOn / SubscribeOn: the final observer gets a prefix of the gated script; as long as
    nobody unsubscribed, exactly what the consumer loop has handled -/
theorem detach_delivery (cap : Nat) (hot : Bool) (raw : List (Notif α)) (sched : List Tid) :
    let cfg : Cfg := { cap := cap, hot := hot }
    let s := run cfg (init cfg raw) sched
    (∃ t, s.out ++ t = gate raw) ∧ (early s = true → s.out = s.got) :=
  ⟨out_prefix (inv_run _ raw sched), fun he => out_eq_got (inv_run _ raw sched) rfl he⟩

/-- no deadlock and no loss: nobody unsubscribed and neither goroutine can move ⇒ the final
    observer has received exactly the gated script (every queued value, then the terminal) -/
theorem detach_complete (cap : Nat) (hot : Bool) (raw : List (Notif α)) (sched : List Tid) :
    let cfg : Cfg := { cap := cap, hot := hot }
    let s := run cfg (init cfg raw) sched
    early s = true → step cfg s .prod = none → step cfg s .cons = none → s.out = gate raw :=
  fun he hp hc => (pipe_complete (inv_run _ raw sched) he (by simp) hp hc).2 rfl

/-- the bound: produced − consumed ≤ capacity + 2 (capacity queued, one in the producer's hand,
    one in the consumer's) at every reachable state as long as nobody unsubscribed -/
theorem handoff_bound (cfg : Cfg) (raw : List (Notif α)) (sched : List Tid) :
    let s := run cfg (init cfg raw) sched
    early s = true → s.ahead ≤ cfg.cap + 2 :=
  fun he => ahead_le_early (inv_run cfg raw sched) he

/-- … and in general, not counting the notifications thrown away because their send met the
    channel closed by an unsubscription (they are not queued: each ends as one OnUnhandledError);
    with a registered (hot) source there is at most one of those -/
theorem handoff_bound_unsub (cfg : Cfg) (raw : List (Notif α)) (sched : List Tid) :
    let s := run cfg (init cfg raw) sched
    s.entered.length ≤ s.got.length + cfg.cap + 2 + s.fails.length ∧ (cfg.hot = true → s.fails.length ≤ 1) :=
  ⟨ahead_le (inv_run cfg raw sched), fails_le_one_hot (inv_run cfg raw sched)⟩

/-- the channel is closed at most once, and exactly once after `stop()` has returned -/
theorem handoff_close_once (cfg : Cfg) (raw : List (Notif α)) (sched : List Tid) :
    let s := run cfg (init cfg raw) sched
    s.closes ≤ 1 ∧ (0 < s.stops → s.closes = 1 ∧ s.closed = true) :=
  ⟨closes_le_one (inv_run cfg raw sched), closes_eq_one_of_stops (inv_run cfg raw sched)⟩

/-- ObserveOn / SubscribeOn release their goroutine even when an upstream teardown panics (repo fix
    694a874, `defer stop()`): two steps after `Unsubscribe()` passed its CAS the hand-off channel is
    closed exactly once, so the consumer loop `range ch` ends -/
theorem detach_teardown_releases (cap : Nat) (hot panics : Bool) (raw : List (Notif α)) (sched : List Tid) :
    let cfg : Cfg := { cap := cap, hot := hot, upPanic := panics }
    let s := run cfg (init cfg raw) sched
    s.tpc = .td1 → ∃ s1 s2, step cfg s .ctl = some s1 ∧ step cfg s1 .ctl = some s2 ∧ s2.tpc = .done ∧
      s2.closed = true ∧ s2.closes = 1 ∧ (panics = true → hot = true → s.upOpen = true → s2.raised = true) :=
  fun ht => teardown_releases (inv_run _ raw sched) ht

/-- Collect over ObserveOn / SubscribeOn equals Collect over the source -/
theorem collect_through_detach (cap : Nat) (hot : Bool) (raw : List (Notif α)) (sched : List Tid) :
    let cfg : Cfg := { cap := cap, hot := hot }
    let s := run cfg (init cfg raw) sched
    early s = true → step cfg s .prod = none → step cfg s .cons = none → ending raw ≠ .never →
    some (collectOf s.out) = collect raw :=
  fun he hp hc ht => collect_detach (inv_run _ raw sched) rfl he hp hc ht

/-- the source of detachOn / ToChannel is written the way the model reads it (regenerated facts) -/
theorem handoff_shapes : RoGen.ChanShape.table = Chan.expectedShapes := Chan.chan_shapes_ok

-- non-vacuity: the bound is tight — capacity 1, a consumer that took one value and stalls:
-- three notifications are ahead of it (one queued, one in each hand)
example :
    let cfg : Cfg := { cap := 1 }
    let s := run cfg (init cfg [Notif.next {} (1 : Int), .next {} 2, .next {} 3, .next {} 4]) [.prod, .prod, .cons, .prod, .prod, .prod, .prod, .prod]
    s.ahead = 3 ∧ early s = true ∧ step cfg s .prod = none := by decide
-- a slow consumer still gets everything, terminal last
example :
    let cfg : Cfg := { cap := 1, hot := false }
    let s := run cfg (init cfg [Notif.next {} (1 : Int), .error {} (.user 1), .next {} 9]) [.prod, .prod, .prod, .cons, .prod, .prod, .cons, .cons, .cons, .cons, .cons, .prod]
    s.out = [.next {} 1, .error {} (.user 1)] ∧ s.closes = 1 := by decide

end handoff

end Ro.C08

#print axioms Ro.C08.handoff_fifo
#print axioms Ro.C08.handoff_order
#print axioms Ro.C08.detach_delivery
#print axioms Ro.C08.detach_complete
#print axioms Ro.C08.handoff_bound
#print axioms Ro.C08.handoff_bound_unsub
#print axioms Ro.C08.handoff_close_once
#print axioms Ro.C08.detach_teardown_releases
#print axioms Ro.C08.collect_through_detach
#print axioms Ro.C08.handoff_shapes

/-
  C04 (d) — variants, aliases and Pipe: "the plain, indexed, context-aware and indexed-context-aware
  variants of an operator, its aliases, and the reflective Pipe/PipeOp versus the typed
  PipeN/PipeOpN compositions are observationally identical".

  Two regenerated tables (go/extract, on every run):
   * `RoGen.Delegation.table` — every exported function of operator_*.go whose body is a single
     `return Other(args…)`: the function finally called and the normalised call. It must EQUAL the
     expected table below (`delegation_expected`, by `decide`): an alias that silently stops
     delegating, delegates to a sibling, swaps two callbacks, or starts to use / drop the index or
     the context breaks the build. On top of the literal equality, structural theorems over the
     regenerated table: the plain / WithContext forms of an indexed operator ignore the index
     (`variants_ignore_index`), the indexed form passes it (`indexed_variants_pass_index`), the
     forms without context return the context unchanged or never see one
     (`plain_variants_keep_context`), every `Do…` is its `Tap…` twin (`do_is_tap`), every chain of
     delegations ends in an operator body of the catalogue (`delegation_roots`).
     The behaviour of the base functions is C04 proper (machine = spec, RoProps/C04.lean); the harness
     runs all four variants against the same machine with the adapter's callbacks.
   * `RoGen.Pipe.table` — for each typed `PipeN` the operator parameters in application order, for each
     `PipeOpN` the `PipeN` it hands `source, operator1, …, operatorN` to, and the shape of the reflective
     `Pipe` loop. `pipe_expected`: the table is exactly rows 1..25 with order `[1, …, n]`;
     `apply_in_order`: applying the operators in that order is `List.foldl`, and `foldl_eq_nested`:
     that is the nested application `opN (… (op1 src))`. The reflective `Pipe` is tied by the harness
     kind `pipe` (five ways of assembling the same chain, compared with each other and with the
     chain of machines).
-/
import RoProofs.SeqEq
import RoProofs.Precision
import RoProofs.Ops.MoreSpecs
import RoProofs.Ops.CreateSpecs
import RoModel.DelegationFacts
import RoGen.Delegation
import RoGen.Pipe
import RoGen.Catalogue
namespace Ro.C04d
open Ro.Facts

/-! ### delegation -/

/-- (name, base, kind, normalised call) of every single-return delegating function, as read from
    the pinned tree -/
def expectedDelegation : List (String × String × String × String) := [
  ("MergeMap", "MergeMapIWithContext", "adapter", "MergeMapIWithContext(fn(#1,#2,_){ret #1,$1(#2)})"),
  ("MergeMapWithContext", "MergeMapIWithContext", "adapter", "MergeMapIWithContext(fn(#1,#2,_){ret #1,$1(#1,#2)})"),
  ("MergeMapI", "MergeMapIWithContext", "adapter", "MergeMapIWithContext(fn(#1,#2,#3){ret #1,$1(#2,#3)})"),
  ("CombineLatestWith", "CombineLatestWith1", "alias", "CombineLatestWith1($1)"),
  ("CombineLatestAllAny", "CombineLatestAll", "alias", "CombineLatestAll()"),
  ("ZipWith", "ZipWith1", "alias", "ZipWith1($1)"),
  ("All", "AllIWithContext", "adapter", "AllIWithContext(fn(_,#2,_){ret $1(#2)})"),
  ("AllWithContext", "AllIWithContext", "adapter", "AllIWithContext(fn(#1,#2,_){ret $1(#1,#2)})"),
  ("AllI", "AllIWithContext", "adapter", "AllIWithContext(fn(_,#2,#3){ret $1(#2,#3)})"),
  ("Contains", "ContainsI", "adapter", "ContainsI(fn(#1,_){ret $1(#1)})"),
  ("ContainsWithContext", "ContainsIWithContext", "adapter", "ContainsIWithContext(fn(#1,#2,_){ret $1(#1,#2)})"),
  ("ContainsI", "ContainsIWithContext", "adapter", "ContainsIWithContext(fn(_,#2,#3){ret $1(#2,#3)})"),
  ("Find", "FindI", "adapter", "FindI(fn(#1,_){ret $1(#1)})"),
  ("FindWithContext", "FindIWithContext", "adapter", "FindIWithContext(fn(#1,#2,_){ret $1(#1,#2)})"),
  ("FindI", "FindIWithContext", "adapter", "FindIWithContext(fn(_,#2,#3){ret $1(#2,#3)})"),
  ("DefaultIfEmpty", "DefaultIfEmptyWithContext", "compose", "DefaultIfEmptyWithContext(context.Background(),$1)"),
  ("Share", "ShareWithConfig", "compose", "ShareWithConfig(lit{Connector:defaultConnector,ResetOnError:true,ResetOnComplete:true,ResetOnRefCountZero:true})"),
  ("ShareReplay", "ShareWithConfig", "compose", "ShareWithConfig(lit{Connector:fn(){ret NewReplaySubject($1)},ResetOnError:true,ResetOnComplete:false,ResetOnRefCountZero:false})"),
  ("ShareReplayWithConfig", "ShareWithConfig", "compose", "ShareWithConfig(lit{Connector:fn(){ret NewReplaySubject($1)},ResetOnError:true,ResetOnComplete:false,ResetOnRefCountZero:$2.ResetOnRefCountZero})"),
  ("ContextMap", "ContextMapI", "adapter", "ContextMapI(fn(#1,_){ret $1(#1)})"),
  ("Just", "Of", "alias", "Of($1...)"),
  ("Merge", "MergeAll", "compose", "MergeAll()(Just($1...))"),
  ("CombineLatest2", "CombineLatestWith1", "compose", "CombineLatestWith1($2)($1)"),
  ("CombineLatest3", "CombineLatestWith2", "compose", "CombineLatestWith2($2,$3)($1)"),
  ("CombineLatest4", "CombineLatestWith3", "compose", "CombineLatestWith3($2,$3,$4)($1)"),
  ("CombineLatest5", "CombineLatestWith4", "compose", "CombineLatestWith4($2,$3,$4,$5)($1)"),
  ("CombineLatestAny", "CombineLatestAllAny", "compose", "CombineLatestAllAny()(Just($1...))"),
  ("Zip", "ZipAll", "compose", "ZipAll()(Just($1...))"),
  ("Zip2", "ZipWith1", "compose", "ZipWith1($2)($1)"),
  ("Zip3", "ZipWith2", "compose", "ZipWith2($2,$3)($1)"),
  ("Zip4", "ZipWith3", "compose", "ZipWith3($2,$3,$4)($1)"),
  ("Zip5", "ZipWith4", "compose", "ZipWith4($2,$3,$4,$5)($1)"),
  ("Zip6", "ZipWith5", "compose", "ZipWith5($2,$3,$4,$5,$6)($1)"),
  ("Concat", "ConcatAll", "compose", "ConcatAll()(Just($1...))"),
  ("Amb", "Race", "alias", "Race($1...)"),
  ("Retry", "RetryWithConfig", "compose", "RetryWithConfig(lit{MaxRetries:0,Delay:0,ResetOnSuccess:false})"),
  ("DoWhile", "DoWhileI", "adapter", "DoWhileI(fn(_){ret $1()})"),
  ("DoWhileWithContext", "DoWhileIWithContext", "adapter", "DoWhileIWithContext(fn(#1,_){ret $1(#1)})"),
  ("DoWhileI", "DoWhileIWithContext", "adapter", "DoWhileIWithContext(fn(#1,#2){ret #1,$1(#2)})"),
  ("While", "WhileIWithContext", "adapter", "WhileIWithContext(fn(#1,_){ret #1,$1()})"),
  ("WhileWithContext", "WhileIWithContext", "adapter", "WhileIWithContext(fn(#1,_){ret $1(#1)})"),
  ("WhileI", "WhileIWithContext", "adapter", "WhileIWithContext(fn(#1,#2){ret #1,$1(#2)})"),
  ("Filter", "FilterIWithContext", "adapter", "FilterIWithContext(fn(#1,#2,_){ret #1,$1(#2)})"),
  ("FilterWithContext", "FilterIWithContext", "adapter", "FilterIWithContext(fn(#1,#2,_){ret $1(#1,#2)})"),
  ("FilterI", "FilterIWithContext", "adapter", "FilterIWithContext(fn(#1,#2,#3){ret #1,$1(#2,#3)})"),
  ("DistinctBy", "DistinctByWithContext", "adapter", "DistinctByWithContext(fn(#1,#2){ret #1,$1(#2)})"),
  ("SkipWhile", "SkipWhileI", "adapter", "SkipWhileI(fn(#1,_){ret $1(#1)})"),
  ("SkipWhileWithContext", "SkipWhileIWithContext", "adapter", "SkipWhileIWithContext(fn(#1,#2,_){ret $1(#1,#2)})"),
  ("SkipWhileI", "SkipWhileIWithContext", "adapter", "SkipWhileIWithContext(fn(#1,#2,#3){ret #1,$1(#2,#3)})"),
  ("TakeWhile", "TakeWhileIWithContext", "adapter", "TakeWhileIWithContext(fn(#1,#2,_){ret #1,$1(#2)})"),
  ("TakeWhileWithContext", "TakeWhileIWithContext", "adapter", "TakeWhileIWithContext(fn(#1,#2,_){ret $1(#1,#2)})"),
  ("TakeWhileI", "TakeWhileIWithContext", "adapter", "TakeWhileIWithContext(fn(#1,#2,#3){ret #1,$1(#2,#3)})"),
  ("First", "FirstI", "adapter", "FirstI(fn(#1,_){ret $1(#1)})"),
  ("FirstWithContext", "FirstIWithContext", "adapter", "FirstIWithContext(fn(#1,#2,_){ret $1(#1,#2)})"),
  ("FirstI", "FirstIWithContext", "adapter", "FirstIWithContext(fn(#1,#2,#3){ret #1,$1(#2,#3)})"),
  ("Last", "LastI", "adapter", "LastI(fn(#1,_){ret $1(#1)})"),
  ("LastWithContext", "LastIWithContext", "adapter", "LastIWithContext(fn(#1,#2,_){ret $1(#1,#2)})"),
  ("LastI", "LastIWithContext", "adapter", "LastIWithContext(fn(#1,#2,#3){ret #1,$1(#2,#3)})"),
  ("FloorWithPrecision", "precisionRound", "compose", "precisionRound(floorPrecisionRoundMode(),$1)"),
  ("CeilWithPrecision", "precisionRound", "compose", "precisionRound(ceilPrecisionRoundMode(),$1)"),
  ("Reduce", "ReduceIWithContext", "adapter", "ReduceIWithContext(fn(#1,#2,#3,_){ret #1,$1(#2,#3)},$2)"),
  ("ReduceWithContext", "ReduceIWithContext", "adapter", "ReduceIWithContext(fn(#1,#2,#3,_){ret $1(#1,#2,#3)},$2)"),
  ("ReduceI", "ReduceIWithContext", "adapter", "ReduceIWithContext(fn(#1,#2,#3,#4){ret #1,$1(#2,#3,#4)},$2)"),
  ("ToMap", "ToMapIWithContext", "adapter", "ToMapIWithContext(fn(_,#2,_){ret $1(#2)})"),
  ("ToMapWithContext", "ToMapIWithContext", "adapter", "ToMapIWithContext(fn(#1,#2,_){ret $1(#1,#2)})"),
  ("ToMapI", "ToMapIWithContext", "adapter", "ToMapIWithContext(fn(_,#2,#3){ret $1(#2,#3)})"),
  ("Map", "MapIWithContext", "adapter", "MapIWithContext(fn(#1,#2,_){ret #1,$1(#2)})"),
  ("MapWithContext", "MapIWithContext", "adapter", "MapIWithContext(fn(#1,#2,_){ret $1(#1,#2)})"),
  ("MapI", "MapIWithContext", "adapter", "MapIWithContext(fn(#1,#2,#3){ret #1,$1(#2,#3)})"),
  ("MapErr", "MapErrIWithContext", "adapter", "MapErrIWithContext(fn(#1,#2,_){r,err:=$1(#2);ret r,#1,err})"),
  ("MapErrWithContext", "MapErrIWithContext", "adapter", "MapErrIWithContext(fn(#1,#2,_){ret $1(#1,#2)})"),
  ("MapErrI", "MapErrIWithContext", "adapter", "MapErrIWithContext(fn(#1,#2,#3){r,err:=$1(#2,#3);ret r,#1,err})"),
  ("FlatMap", "FlatMapI", "adapter", "FlatMapI(fn(#1,_){ret $1(#1)})"),
  ("FlatMapWithContext", "FlatMapIWithContext", "adapter", "FlatMapIWithContext(fn(#1,#2,_){ret $1(#1,#2)})"),
  ("FlatMapI", "FlatMapIWithContext", "adapter", "FlatMapIWithContext(fn(_,#2,#3){ret $1(#2,#3)})"),
  ("Scan", "ScanIWithContext", "adapter", "ScanIWithContext(fn(#1,#2,#3,_){ret #1,$1(#2,#3)},$2)"),
  ("ScanWithContext", "ScanIWithContext", "adapter", "ScanIWithContext(fn(#1,#2,#3,_){ret $1(#1,#2,#3)},$2)"),
  ("ScanI", "ScanIWithContext", "adapter", "ScanIWithContext(fn(#1,#2,#3,#4){ret #1,$1(#2,#3,#4)},$2)"),
  ("GroupBy", "GroupByIWithContext", "adapter", "GroupByIWithContext(fn(#1,#2,_){ret #1,$1(#2)})"),
  ("GroupByWithContext", "GroupByIWithContext", "adapter", "GroupByIWithContext(fn(#1,#2,_){ret $1(#1,#2)})"),
  ("GroupByI", "GroupByIWithContext", "adapter", "GroupByIWithContext(fn(#1,#2,#3){ret #1,$1(#2,#3)})"),
  ("SampleTime", "SampleWhen", "compose", "SampleWhen(Interval($1))"),
  ("Tap", "TapWithContext", "adapter", "TapWithContext(fn(_,#2){$1(#2)},fn(_,#2){$2(#2)},fn(_){$3()})"),
  ("Do", "Tap", "alias", "Tap($1,$2,$3)"),
  ("DoWithContext", "TapWithContext", "alias", "TapWithContext($1,$2,$3)"),
  ("TapOnNext", "Tap", "adapter", "Tap($1,fn(_){},fn(){})"),
  ("TapOnNextWithContext", "TapWithContext", "adapter", "TapWithContext($1,fn(_,_){},fn(_){})"),
  ("DoOnNext", "TapOnNext", "alias", "TapOnNext($1)"),
  ("DoOnNextWithContext", "TapOnNextWithContext", "alias", "TapOnNextWithContext($1)"),
  ("TapOnError", "Tap", "adapter", "Tap(fn(_){},$1,fn(){})"),
  ("TapOnErrorWithContext", "TapWithContext", "adapter", "TapWithContext(fn(_,_){},$1,fn(_){})"),
  ("DoOnError", "Tap", "adapter", "Tap(fn(_){},$1,fn(){})"),
  ("DoOnErrorWithContext", "TapWithContext", "adapter", "TapWithContext(fn(_,_){},$1,fn(_){})"),
  ("TapOnComplete", "Tap", "adapter", "Tap(fn(_){},fn(_){},$1)"),
  ("TapOnCompleteWithContext", "TapWithContext", "adapter", "TapWithContext(fn(_,_){},fn(_,_){},$1)"),
  ("DoOnComplete", "Tap", "adapter", "Tap(fn(_){},fn(_){},$1)"),
  ("DoOnCompleteWithContext", "TapWithContext", "adapter", "TapWithContext(fn(_,_){},fn(_,_){},$1)"),
  ("TapOnSubscribe", "TapOnSubscribeWithContext", "adapter", "TapOnSubscribeWithContext(fn(_){$1()})"),
  ("DoOnSubscribe", "TapOnSubscribe", "alias", "TapOnSubscribe($1)"),
  ("DoOnSubscribeWithContext", "TapOnSubscribeWithContext", "alias", "TapOnSubscribeWithContext($1)"),
  ("DoOnFinalize", "TapOnFinalize", "alias", "TapOnFinalize($1)")
]

def DelegRow.key (r : DelegRow) : String × String × String × String := (r.name, r.base, r.kind, r.shape)

set_option maxRecDepth 100000 in
/-- **the regenerated delegation table is the expected one** -/
theorem delegation_expected : RoGen.Delegation.table.map DelegRow.key = expectedDelegation := by decide +kernel

def row? (n : String) : Option DelegRow := RoGen.Delegation.table.find? (·.name == n)

/-- the families that exist as `X`, `XWithContext`, `XI`, `XIWithContext` (the last one is the
    operator body: a Catalogue row) -/
def indexedFamilies : List String :=
  ["MergeMap", "All", "Contains", "Find", "DoWhile", "While", "Filter", "SkipWhile", "TakeWhile", "First", "Last",
   "Reduce", "ToMap", "Map", "MapErr", "FlatMap", "Scan", "GroupBy"]

/-- every family has its three delegating forms, and they all end in the family's operator body -/
def rootOf : Nat → String → String
  | 0, n => n
  | fuel + 1, n => match row? n with
    | some r => rootOf fuel r.base
    | none => n

theorem families_delegate :
    (indexedFamilies.all fun x =>
      rootOf 4 x == x ++ "IWithContext" && rootOf 4 (x ++ "WithContext") == x ++ "IWithContext" &&
      rootOf 4 (x ++ "I") == x ++ "IWithContext") = true := by decide +kernel

/-- the plain and the context-aware form hand the base a callback that takes the index and does
    not use it -/
theorem variants_ignore_index :
    (indexedFamilies.all fun x =>
      ((row? x).map (·.dropsIndex)) == some true && ((row? (x ++ "WithContext")).map (·.dropsIndex)) == some true) = true := by decide +kernel

/-- the indexed form passes the index on (no unused index parameter in its adapter) -/
theorem indexed_variants_pass_index :
    (indexedFamilies.all fun x => ((row? (x ++ "I")).map (·.dropsIndex)) == some false) = true := by decide +kernel

/-- a form whose user callback returns no context either returns the context it was given
    unchanged, or its base does not return a context at all (the callback context is then not used) -/
theorem plain_variants_keep_context :
    (indexedFamilies.all fun x =>
      [x, x ++ "I"].all fun n => match row? n with
        | some r => r.ctxUnchanged || r.ctxIgnored || (rootOf 1 n != x ++ "IWithContext")
        | none => false) = true := by decide +kernel

/-- the `Do…` aliases: either a plain alias of the `Tap…` twin, or literally the same call -/
def doTapPairs : List (String × String) :=
  [("Do", "Tap"), ("DoWithContext", "TapWithContext"), ("DoOnNext", "TapOnNext"), ("DoOnNextWithContext", "TapOnNextWithContext"),
   ("DoOnError", "TapOnError"), ("DoOnErrorWithContext", "TapOnErrorWithContext"), ("DoOnComplete", "TapOnComplete"),
   ("DoOnCompleteWithContext", "TapOnCompleteWithContext"), ("DoOnSubscribe", "TapOnSubscribe"),
   ("DoOnSubscribeWithContext", "TapOnSubscribeWithContext"), ("DoOnFinalize", "TapOnFinalize")]

theorem do_is_tap :
    (doTapPairs.all fun p => match row? p.1 with
      | some d => (d.kind == "alias" && d.base == p.2) ||
          (match row? p.2 with | some t => t.shape == d.shape | none => false)
      | none => false) = true := by decide +kernel

/-- the other aliases -/
theorem aliases :
    ([("Just", "Of"), ("Amb", "Race"), ("CombineLatestWith", "CombineLatestWith1"), ("ZipWith", "ZipWith1")].all fun p =>
      ((row? p.1).map fun r => (r.kind, r.base)) == some ("alias", p.2)) = true := by decide +kernel

/-- an alias forwards every parameter, in order, to its base and nothing else -/
theorem alias_shape :
    (RoGen.Delegation.table.all fun r => r.kind != "alias" ||
      ["()", "($1)", "($1...)", "($1,$2)", "($1,$2,$3)"].any (fun args => r.shape == r.base ++ args)) = true := by decide +kernel

/-- functions that are neither in the delegation table nor operator bodies of the catalogue, yet sit
    at the end of a delegation chain: helpers of operator_math.go and the subject-based Share -/
def helperRoots : List String := ["precisionRound", "Race"]

/-- every chain of delegations ends in an operator body (a row of the regenerated catalogue) -/
theorem delegation_roots :
    (RoGen.Delegation.table.all fun r =>
      RoGen.Catalogue.table.any (fun c => c.name == rootOf 4 r.name) || helperRoots.contains (rootOf 4 r.name)) = true := by decide +kernel

/-! ### Pipe -/

def typedRows (n : Nat) : List PipeRow :=
  (List.range' 1 n).map fun k => { name := "Pipe" ++ toString k, n := k, via := "", order := List.range' 1 k, ok := true }

def typedOpRows (n : Nat) : List PipeRow :=
  (List.range' 1 n).map fun k => { name := "PipeOp" ++ toString k, n := k, via := "Pipe" ++ toString k, order := List.range' 1 k, ok := true }

/-- pipe.go as expected: the reflective `Pipe` (a loop over `operators`, each applied to the
    accumulator), `Pipe1 … Pipe25` applying operator 1, 2, …, n in that order, `PipeOp` = `Pipe` with
    the source supplied later, `PipeOpN` = `PipeN` likewise -/
def expectedPipe : List PipeRow :=
  [{ name := "Pipe", n := 0, via := "range", order := [], ok := true }] ++ typedRows 25 ++
  [{ name := "PipeOp", n := 0, via := "Pipe", order := [], ok := true }] ++ typedOpRows 25

/-- **the regenerated Pipe table is the expected one**: every `PipeN` / `PipeOpN` row is `[1, 2, …, n]` -/
theorem pipe_expected : RoGen.Pipe.table = expectedPipe := by decide +kernel

theorem pipe_rows_in_order :
    (RoGen.Pipe.table.all fun r => r.ok && (r.n == 0 || r.order == List.range' 1 r.n)) = true := by decide +kernel

/-- what a row means: apply the operators at the listed positions, in the listed order -/
def applyOrder {α : Type} (order : List Nat) (ops : List (α → α)) (src : α) : α :=
  order.foldl (fun acc k => (ops.getD (k - 1) id) acc) src

/-- nested application `opN (… (op2 (op1 src)))` -/
def nested {α : Type} : List (α → α) → α → α
  | [], s => s
  | f :: fs, s => nested fs (f s)

theorem applyOrder_range'_aux {α : Type} (ops pre : List (α → α)) (s : α) :
    (List.range' (pre.length + 1) ops.length).foldl (fun acc k => ((pre ++ ops).getD (k - 1) id) acc) s =
      ops.foldl (fun acc f => f acc) s := by
  induction ops generalizing pre s with
  | nil => rfl
  | cons f fs ih =>
    have h1 : (pre ++ f :: fs).getD (pre.length + 1 - 1) id = f := by simp
    have h2 := ih (pre ++ [f]) (f s)
    simp only [List.length_append, List.length_cons, List.length_nil, List.append_assoc, List.singleton_append, Nat.zero_add] at h2
    simp only [List.length_cons, List.range'_succ, List.foldl_cons, h1]
    exact h2

/-- applying the operators in the order `[1, …, n]` of a typed row is the left fold over the operators … -/
theorem apply_in_order {α : Type} (ops : List (α → α)) (src : α) :
    applyOrder (List.range' 1 ops.length) ops src = ops.foldl (fun acc f => f acc) src := by
  have := applyOrder_range'_aux ops [] src
  simpa [applyOrder] using this

/-- … which is the nested application (what the reflective loop computes = what `PipeN` writes out) -/
theorem foldl_eq_nested {α : Type} (ops : List (α → α)) (src : α) :
    ops.foldl (fun acc f => f acc) src = nested ops src := by
  induction ops generalizing src with
  | nil => rfl
  | cons f fs ih => simpa [nested] using ih (f src)

/-- every typed row of the regenerated table applied to `n` operators is the nested application -/
theorem typed_rows_nested {α : Type} (r : PipeRow) (hr : r ∈ RoGen.Pipe.table) (hn : r.n ≠ 0)
    (ops : List (α → α)) (hl : ops.length = r.n) (src : α) : applyOrder r.order ops src = nested ops src := by
  have hall := pipe_rows_in_order
  rw [List.all_eq_true] at hall
  have h := hall r hr
  simp only [Bool.and_eq_true, Bool.or_eq_true, beq_iff_eq] at h
  rcases h.2 with h0 | ho
  · exact absurd h0 hn
  · rw [ho, ← hl, apply_in_order, foldl_eq_nested]

-- non-vacuity: a swapped order is a different function
example : applyOrder [1, 3, 2] [(· + 1), (· * 2), (· - 3)] (5 : Int) ≠ nested [(· + 1), (· * 2), (· - 3)] 5 := by decide
example : applyOrder [1, 2, 3] [(· + 1), (· * 2), (· - 3)] (5 : Int) = 9 := by decide

/-! ### the remaining single-source operators (RoModel/Ops/More.lean) and the creation operators
    (RoModel/Ops/Create.lean): machine / generator = specification; shapes restated for three of them,
    the others audited by name below -/

theorem cast {α β : Type} (ok : α → Option β) (err : Err) (mode : SrcMode) (sub : Ctx) (raw : List (Notif α)) :
    (runOp (castM ok err) mode sub raw).out = Spec.cast ok err (values raw) (ending raw) := cast_spec ok err mode sub raw

theorem ctxWithValue {α : Type} (m : Nat) (mode : SrcMode) (sub : Ctx) (raw : List (Notif α)) :
    (runOp (ctxWithValueM (α := α) m) mode sub raw).out = Spec.ctxWithValue m (values raw) (ending raw) :=
  ctxWithValue_spec m mode sub raw

/-- `Range(start, end)` for all integers: the generated script is `List.range` mapped, then completion;
    delivered as is, nothing refused -/
theorem range (start endv : Int) (c : Ctx) :
    (rangeG start endv).delivered c = Spec.rangeScript start endv c ∧ (rangeG start endv).dropped c = [] :=
  rangeG_delivered start endv c

/-- `RangeWithStep(start, end, step)` for all integral bounds and every positive integral step: every value
    `start ± i·step` of `[start:end)` — `⌈|end-start| / step⌉` of them, the last one included when the span is not a
    multiple of the step —, then completion; delivered as is, nothing refused -/
theorem rangeWithStep (start endv : Int) (step : Nat) (hs : 0 < step) (c : Ctx) :
    (rangeStepG start endv (step : Int)).delivered c = Spec.rangeStepScript start endv step c ∧
    (rangeStepG start endv (step : Int)).dropped c = [] :=
  rangeStepG_delivered start endv step hs c

/-! ### SequenceEqual (operator_conditional.go; RoModel/Ops/SeqEq.lean; tie: kind=seqeq) -/

/-- PARTIAL: for two completing sequences of EQUAL length SequenceEqual computes the documented function -/
theorem sequenceEqual_partial (a b : List Int) (h : a.length = b.length) :
    SeqEq.impl a .complete b .complete = SeqEq.spec a .complete b .complete := SeqEq.impl_spec_partial a b h

/-- what the code computes for every pair of completing sequences: agreement on the common length -/
theorem sequenceEqual_impl (a b : List Int) :
    SeqEq.impl a .complete b .complete = [.val (decide (a.take b.length = b.take a.length)), .complete] := SeqEq.play_complete a b

/-- DEVIATION (known finding; the pinned test has `Empty` vs `Just(1,2,3)` = true): a proper prefix "equals" its extension -/
theorem sequenceEqual_prefix_deviation (a ext : List Int) :
    SeqEq.impl a .complete (a ++ ext) .complete = [.val true, .complete] ∧ SeqEq.impl (a ++ ext) .complete a .complete = [.val true, .complete] :=
  SeqEq.impl_prefix_true a ext

/-! ### FloorWithPrecision / CeilWithPrecision (operator_math.go; tie: kind=precision, integers compared) -/

/-- `FloorWithPrecision(places)` on `x = m / 2^k`: `n / 10^places` with `n` the greatest integer such that `n / 10^places ≤ x`
    (written without division: `n · den ≤ num < (n+1) · den` for `x · 10^places = num / den`) -/
theorem floorWithPrecision (m : Int) (k : Nat) (places : Int) :
    Precision.floorN m k places * (Precision.scaled m k places).2 ≤ (Precision.scaled m k places).1 ∧
    (Precision.scaled m k places).1 < (Precision.floorN m k places + 1) * (Precision.scaled m k places).2 :=
  Precision.floorN_spec m k places

/-- `CeilWithPrecision(places)`: the least such integer from above -/
theorem ceilWithPrecision (m : Int) (k : Nat) (places : Int) :
    (Precision.ceilN m k places - 1) * (Precision.scaled m k places).2 < (Precision.scaled m k places).1 ∧
    (Precision.scaled m k places).1 ≤ Precision.ceilN m k places * (Precision.scaled m k places).2 :=
  Precision.ceilN_spec m k places

/-- floor ≤ ceiling, at most one step apart; a multiple of the step is a fixed point of both -/
theorem precision_floor_le_ceil (m : Int) (k : Nat) (places : Int) :
    Precision.floorN m k places ≤ Precision.ceilN m k places ∧ Precision.ceilN m k places ≤ Precision.floorN m k places + 1 :=
  Precision.floor_le_ceil m k places

theorem precision_fixed_point (m : Int) (k : Nat) (places n : Int)
    (h : (Precision.scaled m k places).1 = n * (Precision.scaled m k places).2) :
    Precision.floorN m k places = n ∧ Precision.ceilN m k places = n := Precision.fixed_point m k places n h

/-- a creation operator under any machine: the existing run theorem with a synchronous source
    playing the generated script -/
theorem create_pipe {σ α β : Type} (g : Gen α) (m : Machine σ α β) (c : Ctx) (hs : m.subscribes = true) :
    (g.pipe m c).out = gate ((m.onSubscribe m.init c).2 ++ m.emits (m.onSubscribe m.init c).1 (gate ((g c).raw c))) :=
  Gen.pipe_out g m c hs

example : Spec.rangeValues 4 1 = [4, 3, 2] := by decide
example : Spec.rangeValues 2 2 = [] := by decide

end Ro.C04d

#print axioms Ro.C04d.delegation_expected
#print axioms Ro.C04d.families_delegate
#print axioms Ro.C04d.variants_ignore_index
#print axioms Ro.C04d.indexed_variants_pass_index
#print axioms Ro.C04d.plain_variants_keep_context
#print axioms Ro.C04d.do_is_tap
#print axioms Ro.C04d.aliases
#print axioms Ro.C04d.alias_shape
#print axioms Ro.C04d.delegation_roots
#print axioms Ro.C04d.pipe_expected
#print axioms Ro.C04d.pipe_rows_in_order
#print axioms Ro.C04d.apply_in_order
#print axioms Ro.C04d.foldl_eq_nested
#print axioms Ro.C04d.typed_rows_nested
#print axioms Ro.C04d.cast
#print axioms Ro.C04d.ctxWithValue
#print axioms Ro.C04d.range
#print axioms Ro.C04d.rangeWithStep
#print axioms Ro.C04d.sequenceEqual_partial
#print axioms Ro.C04d.sequenceEqual_impl
#print axioms Ro.C04d.sequenceEqual_prefix_deviation
#print axioms Ro.SeqEq.length_witness
#print axioms Ro.SeqEq.late_error_witness
#print axioms Ro.C04d.floorWithPrecision
#print axioms Ro.C04d.ceilWithPrecision
#print axioms Ro.C04d.precision_floor_le_ceil
#print axioms Ro.C04d.precision_fixed_point
#print axioms Ro.C04d.create_pipe
#print axioms Ro.ctxWithValue_spec
#print axioms Ro.contextMap_spec
#print axioms Ro.contextReset_spec
#print axioms Ro.cast_spec
#print axioms Ro.tap_spec
#print axioms Ro.tap_effects
#print axioms Ro.runOp_st_quiet
#print axioms Ro.timed_spec
#print axioms Ro.average_spec
#print axioms Ro.average_empty_second_emission_dropped
#print axioms Ro.floatMap_spec
#print axioms Ro.ofG_script
#print axioms Ro.fromSliceG_script
#print axioms Ro.emptyG_script
#print axioms Ro.throwG_script
#print axioms Ro.rangeLoop_values
#print axioms Ro.rangeG_script
#print axioms Ro.rangeStepLoop_values
#print axioms Ro.rangeStepG_script
#print axioms Ro.rangeStepValues_one
#print axioms Ro.repeatG_script
#print axioms Ro.startG_ok
#print axioms Ro.startG_panic
#print axioms Ro.deferG_ok
#print axioms Ro.deferG_panic
#print axioms Ro.deferG_calls
#print axioms Ro.iifG_true
#print axioms Ro.iifG_false
#print axioms Ro.Gen.delivered_dropped
#print axioms Ro.Gen.delivered_grammar
#print axioms Ro.ofG_delivered
#print axioms Ro.fromSliceG_delivered
#print axioms Ro.emptyG_delivered
#print axioms Ro.throwG_delivered
#print axioms Ro.rangeG_delivered
#print axioms Ro.repeatG_delivered
#print axioms Ro.startG_ok_delivered
#print axioms Ro.startG_panic_delivered
#print axioms Ro.deferG_ok_delivered
#print axioms Ro.deferG_panic_delivered
#print axioms Ro.Gen.pipe_out
#print axioms Ro.Gen.pipe_grammar
#print axioms Ro.just_take_drops
#print axioms Ro.Gen.resubscribe
#print axioms Ro.Gen.resubscribe_calls

/-
  C06 / C03 (kernel, lock discipline) — teardowns run OUTSIDE the producer lock.

  "Wait returns once the subscription is closed, Collect never hangs on a stream that has terminated": when a stream
  ends by itself, Error / Complete deliver under the producer lock `mu`, RELEASE it, and only then run the teardowns
  of the subscription. A teardown that stops a producer goroutine and waits until it has left ("nothing runs after the
  teardown has returned") therefore never waits for a goroutine that is itself waiting for `mu`.

  Stated for the table REGENERATED from subscriber.go / subscription.go on this run (`RoGen.Kernel.table`), through
  the decidable lock-discipline checker `wellLocked` (RoModel/Kernel/WellLocked.lean: `runTaken`, `runNow`,
  `raiseJoined` and every call of another method need "mu not held") and its soundness theorem
  (RoProofs/Kernel/WellLockedSound.lean) — independent of the program-equality tie of RoProps/KernelTie.lean, so a
  rewrite of the kernel that keeps the discipline keeps this theorem.
-/
import RoProofs.Kernel.WellLockedSound
import RoGen.Kernel
import RoModel.Kernel.Expected
namespace Ro.C06lock
open Ro.Kernel

/-- the regenerated programs are accepted by the checker (decided by the kernel on this run) -/
theorem regenerated_programs_wellLocked : wellLocked RoGen.Kernel.table = true := by decide

/-- C06: in every reachable state of the regenerated programs (safe / eventually-safe mode, any threads, scripts,
    schedule), a thread that is about to run a teardown or to re-raise the teardowns' panics does not hold `mu` -/
theorem regenerated_teardowns_outside_mu (mode : Mode) (hm : mode ≠ .unsafeMode) (destNil : Bool) (panicky : List FinId)
    (scripts : List (List ApiCall)) (sched : List Tid) (t : Tid) (th : Thread)
    (ht : (run (lookup RoGen.Kernel.table) (init mode destNil panicky scripts) sched).threads[t]? = some th)
    (hh : th.ctl.head = .stmt .runTaken ∨ th.ctl.head = .stmt .runNow ∨ th.ctl.head = .stmt .raiseJoined) :
    (run (lookup RoGen.Kernel.table) (init mode destNil panicky scripts) sched).sh.mu ≠ some t :=
  wellLocked_teardowns_outside_mu _ regenerated_programs_wellLocked mode hm destNil panicky scripts sched t th ht hh

/-- the same for any accepted table (the statement the regenerated instance comes from) -/
theorem wellLocked_teardowns_outside_mu_any (table : List (Meth × Prog)) (hw : wellLocked table = true)
    (mode : Mode) (hm : mode ≠ .unsafeMode) (destNil : Bool) (panicky : List FinId)
    (scripts : List (List ApiCall)) (sched : List Tid) (t : Tid) (th : Thread)
    (ht : (run (lookup table) (init mode destNil panicky scripts) sched).threads[t]? = some th)
    (hh : th.ctl.head = .stmt .runTaken ∨ th.ctl.head = .stmt .runNow ∨ th.ctl.head = .stmt .raiseJoined) :
    (run (lookup table) (init mode destNil panicky scripts) sched).sh.mu ≠ some t :=
  wellLocked_teardowns_outside_mu table hw mode hm destNil panicky scripts sched t th ht hh

/-! ### non-vacuity -/

-- a Complete that unsubscribes BEFORE it releases the lock is rejected (whether written with explicit unlock or with defers)
example : wellLocked (Expected.table.map fun (m, p) => if m == .subComplete then
    (m, [.lock .mu, .ifCas .status 0 2 [.ifNil .destination [] [.callDest .complete]] [.drop .complete],
         .callSelf .subUnsubInner, .unlock .mu]) else (m, p)) = false := by decide
example : wellLocked (Expected.table.map fun (m, p) => if m == .subComplete then
    (m, [.lock .mu, .deferUnlock .mu, .ifCas .status 0 2 [.ifNil .destination [] [.callDest .complete]] [.drop .complete],
         .callSelf .subUnsubInner]) else (m, p)) = false := by decide
-- a subscription whose Unsubscribe ran its finalizers under the producer lock is rejected
example : wellLocked (Expected.table.map fun (m, p) => if m == .snUnsubscribe then
    (m, [.lock .mu, .lock .subMu, .setDone, .swapFinalizers, .unlock .subMu, .runTaken, .unlock .mu, .raiseJoined]) else (m, p)) = false := by decide
-- the hypothesis is met: after Add 1 and Complete, thread 0 stands at `runTaken` with one finalizer taken, `mu` free
example : let s := run Expected.progs (init .safe false [] [[.add 1, .complete]]) (List.replicate 23 0)
    (s.threads.map fun th => (match th.ctl.head with | .stmt .runTaken => true | _ => false, th.taken)) = [(true, [1])] ∧
      s.sh.mu = none := by decide +kernel

end Ro.C06lock

#print axioms Ro.C06lock.regenerated_programs_wellLocked
#print axioms Ro.C06lock.regenerated_teardowns_outside_mu
#print axioms Ro.C06lock.wellLocked_teardowns_outside_mu_any

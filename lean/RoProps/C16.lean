/-
  C16 — time-driven operators never act early, never reorder, and stop when told.

  Model: RoModel/Timed.lean (timed traces; one model per operator, the environment choosing when
  timers fire, ticks arrive, callbacks run, `select` cases are taken and teardowns take effect).
  The ONLY assumption about Go's timers and tickers: never early (`DelayWF.neverEarly`,
  `IntervalWF.neverEarly`, `TimerWF`, the guards of `iwiStep` and `toStep`, `TicksOK`).
  Specification: RoModel/Spec/Timed.lean — `Clause cfg trace` (decidable), `accepts := decide ∘ Clause`.

  Second assumption, used only for "silent after cancellation": once `ctx.Done()` is ready the `select`
  loop takes at most `cancelSlack` (8) more ticks before it takes it (`IntervalWF.selectFair`,
  `RangeWF.selectFair`, `hfair`): `select` chooses uniformly among ready cases.

  (A) model theorems — for every source timeline and every environment that respects "never early":
      the run satisfies the clause (so it is accepted);
  (B) acceptor soundness — `accepts cfg trace = true →` the plain-words statement for the operator;
  (C) deviation of the tree, as witness theorems: the unlock-then-emit window of `BufferWithTimeOrCount`.
      (`IntervalWithInitial(0, p)` errored and `IntervalWithInitial(i, p)`, `p > i`, raced its `2·i` ticker
      against the initial timer until /repo commit 6a7ef90; the model is the repaired code and the theorem is full.)

  The tie to the real code is ACCEPTANCE: go/harness/timed.go runs the real operators in real time
  and `accepts` (B) must accept every observed trace — weaker than equality of outputs.
-/
import RoProofs.TimedDelay
import RoProofs.TimedPeriodic
import RoProofs.TimedRange
import RoProofs.TimedTimeout
import RoProofs.TimedWindow
import RoProofs.TimedAccept
namespace Ro.C16
open Ro.Timed

/-! ### (A) the models satisfy the clause, for every environment -/

/-- Delay: the k-th delivery is the k-th emission and comes no sooner than `d` after it (pigeonhole
    over the AfterFunc callbacks; pop order = delivery order) -/
theorem delay_never_early (r : DelayRun) (h : DelayWF r) (k : Nat) (dl : Ev)
    (hk : (delayTrace r).dels[k]? = some dl) :
    ∃ e : Time × TN, r.emits[k]? = some e ∧ dl.n = e.2 ∧ e.1 + r.d ≤ dl.t0 :=
  Ro.Timed.delay_never_early r h k dl hk

theorem delay_model_accepted (r : DelayRun) (h : DelayWF r) :
    accepts { op := .delay, d := r.d } (delayTrace r) = true := delay_model_accepts r h

theorem delay_silent_after_teardown (r : DelayRun) (u : Time) (hu : r.unsub = some u) :
    ∀ dl ∈ (delayTrace r).dels, dl.t0 ≤ u := delay_silent_after_unsub r u hu

theorem delayEach_model_accepted (r : DelayEachRun) (h : DelayEachWF r) :
    accepts { op := .delayEach, d := r.d } (delayEachTrace r) = true := delayEach_model_accepts r h

/-- Interval: value k never before k+1 periods -/
theorem interval_never_early (r : IntervalRun) (h : IntervalWF r) (k : Nat) (dl : Ev) (v : Int)
    (hk : (intervalTrace r).dels[k]? = some dl) (hv : dl.n = .next v) :
    v = (k : Int) ∧ r.sub + (k + 1) * r.p ≤ dl.t0 := Ro.Timed.interval_never_early r h k dl v hk hv

theorem interval_model_accepted (r : IntervalRun) (h : IntervalWF r) :
    accepts { op := .interval, d := r.p } (intervalTrace r) = true := interval_model_accepts r h

theorem timer_model_accepted (r : TimerRun) (h : TimerWF r) :
    accepts { op := .timer, d := r.d } (timerTrace r) = true := timer_model_accepts r h

theorem range_model_accepted (r : RangeRun) (h : RangeWF r) :
    accepts { op := .rangeWithInterval, d := r.p, a := r.a, b := r.b, step := r.step } (rangeTrace r) = true :=
  range_model_accepts r h

/-- IntervalWithInitial, every `initial ≥ 0` and every `interval > 0`: value k never before
    `initial + k·interval`, never an Error. (Partial before 6a7ef90: `initial = 0` errored, `interval > initial` raced.) -/
theorem intervalWithInitial_never_early (r : IwiRun) (hp : 0 < r.p)
    (hstop : ∀ c x, r.stop = some (c, x) → c ≤ x)
    (hfair : ∀ c x s, r.stop = some (c, x) → iwiRunFrom r.sub r.i r.p (iwiInit r.sub r.i r.p r.first) r.evs = some s →
      (s.out.filter (fun o => decide (c < o.1))).length ≤ cancelSlack)
    (tr : TimedTrace) (htr : iwiTrace r = some tr) :
    Clause { op := .intervalWithInitial, d := r.p, d2 := r.i } tr :=
  iwi_model_clause r hp hstop hfair tr htr

/-- the repaired ticker is silent until `Reset`: no environment makes a tick precede the timer branch -/
theorem intervalWithInitial_no_tick_before_reset (sub i p first : Nat) (hi : 0 < i) (t : Time) (evs : List IwiEv) :
    iwiRunFrom sub i p (iwiInit sub i p first) (.tick t :: evs) = none :=
  iwi_no_tick_before_reset sub i p first hi t evs

/-- `initial = 0`: value 0 is sent at once by Subscribe itself (no Error any more) -/
theorem intervalWithInitial_zero_emits_at_once (p sub first : Nat) :
    (iwiTrace { i := 0, p := p + 1, sub := sub, first := sub + first, evs := [], stop := none, unsub := none }).map (·.dels)
      = some [Ev.at (sub + first) (.next 0)] := iwi_zero_emits_at_once p sub first

/-- Timeout: error only after a full quiet period measured from the end of the last forwarded Next;
    forwarded notifications are the source's in order; nothing after a terminal -/
theorem timeout_sound (r : ToRun) (tr : TimedTrace) (htr : toTrace r = some tr) :
    Clause { op := .timeout, d := r.d } tr := timeout_model_clause r tr htr

theorem timeout_model_accepted (r : ToRun) (tr : TimedTrace) (htr : toTrace r = some tr) :
    accepts { op := .timeout, d := r.d } tr = true := timeout_model_accepts r tr htr

/-- ThrottleTime: consecutive passes are more than the window apart; nothing invented or reordered -/
theorem throttle_spacing (r : ThrottleRun) (k : Nat) (a b : Ev) (va vb : Int)
    (ha : (throttleTrace r).dels[k]? = some a) (hb : (throttleTrace r).dels[k+1]? = some b)
    (hna : a.n = .next va) (hnb : b.n = .next vb) : a.t0 + r.w < b.t0 :=
  throttle_one_per_window r k a b va vb ha hb hna hnb

theorem throttle_source_order (r : ThrottleRun) :
    List.Sublist ((throttleTrace r).dels.map (·.n)) (r.emits.map (·.2)) := throttle_trace_sublist r

/-- sampling: a tick emits the latest value handed over since the previous sample, once -/
theorem sample_latest_once (st : Option Int) (k : Nat) (seg : List (Time × Int)) (t : Time) (r : List SaEv) :
    sampleFrom st k (seg.map (fun p => SaEv.src p.1 p.2) ++ .tick t :: r) =
      match lastSrc st seg with
      | some v => (k, t, v) :: sampleFrom none (k + 1) r
      | none => sampleFrom none (k + 1) r := sample_tick st k seg t r

/-- sampling: the i-th sample never before i+1 periods (at most one per tick) -/
theorem sample_one_per_tick (sub p : Nat) (evs : List SaEv) (hok : TicksOK sub p 0 evs)
    (i : Nat) (o : Nat × Time × Int) (h : (sampleFrom none 0 evs)[i]? = some o) : sub + (i + 1) * p ≤ o.2.1 :=
  sample_never_early sub p evs hok i o h

theorem sample_source_order (st : Option Int) (k : Nat) (evs : List SaEv) :
    List.Sublist ((sampleFrom st k evs).map (·.2.2)) (st.toList ++ saVals evs) := sample_sublist st k evs

/-- time buffers: only source values, in source order, each at most once; at most `n` per buffer -/
theorem buffers_source_order (cnt : Option Nat) (buf : List Int) (evs : List BuEv) :
    ((bufferFrom cnt buf evs).map (·.2)).flatten <+: buf ++ buVals evs := buffer_concat_prefix cnt buf evs

theorem buffers_count (n : Nat) (hn : 0 < n) (buf : List Int) (evs : List BuEv) (hb : buf.length < n) :
    ∀ o ∈ bufferFrom (some n) buf evs, o.2.length ≤ n := buffer_count_le n hn buf evs hb

/-! ### (B) soundness of the acceptor -/

theorem accepts_sound (cfg : Cfg) (tr : TimedTrace) : accepts cfg tr = true ↔ Clause cfg tr := accepts_iff cfg tr

theorem accepted_grammar {cfg : Cfg} {tr : TimedTrace} (h : accepts cfg tr = true) {k : Nat} {dl : Ev}
    (hk : tr.dels[k]? = some dl) (ht : dl.n.isTerminal = true) : k + 1 = tr.dels.length := accepts_grammar h hk ht

theorem accepted_silent_inside {cfg : Cfg} {tr : TimedTrace} (h : accepts cfg tr = true) {k u0 u1 : Nat}
    (hc : tr.cut = .unsubIn k u0 u1) : tr.dels.length ≤ k + 1 := accepts_silent_inside h hc

theorem accepted_silent_outside {cfg : Cfg} {tr : TimedTrace} (h : accepts cfg tr = true) {u0 u1 : Nat}
    (hc : tr.cut = .unsubOut u0 u1) : (tr.dels.filter (fun e => decide (u1 < e.t0))).length ≤ 1 :=
  accepts_silent_outside h hc

/-- silent after context cancellation, as a count: a stream that keeps delivering is not accepted -/
theorem accepted_silent_cancel {cfg : Cfg} {tr : TimedTrace} (h : accepts cfg tr = true) {c0 c1 : Nat}
    (hc : tr.cut = .cancel c0 c1) :
    lateCount c1 tr.dels ≤ cancelSlack + 2 + (tr.emits.filter (fun e => decide (c1 < e.t1))).length :=
  accepts_silent_cancel h hc

/-- what the seeded change C16-A produces (BufferWithTimeOrCount whose ticker no longer sees the
    cancellation: an empty buffer every period, for ever) is rejected as soon as enough of it is seen -/
theorem keeps_emitting_after_cancel_rejected :
    ¬ Clause { op := .bufferWithTimeOrCount, d := 2, n := 2 }
      { sub := 0, emits := [], cut := .cancel 3 3,
        dels := (List.range 14).map (fun k => ⟨2 * (k + 1), 2 * (k + 1), .buf []⟩) } := by decide

theorem accepted_delay {cfg : Cfg} {tr : TimedTrace} (hop : cfg.op = .delay) (h : accepts cfg tr = true)
    {k : Nat} {dl : Ev} (hk : tr.dels[k]? = some dl) :
    ∃ e : Ev, tr.emits[k]? = some e ∧ dl.n = e.n ∧ e.t0 + cfg.d ≤ dl.t0 := accepts_delay hop h hk

theorem accepted_delayEach {cfg : Cfg} {tr : TimedTrace} (hop : cfg.op = .delayEach) (h : accepts cfg tr = true)
    {k : Nat} {dl : Ev} (hk : tr.dels[k]? = some dl) :
    ∃ e : Ev, tr.emits[k]? = some e ∧ dl.n = e.n ∧ (e.n.isTerminal = false → e.t0 + cfg.d ≤ dl.t0) :=
  accepts_delayEach hop h hk

theorem accepted_timeout {cfg : Cfg} {tr : TimedTrace} (hop : cfg.op = .timeout) (h : accepts cfg tr = true)
    {k : Nat} {dl : Ev} (hk : tr.dels[k]? = some dl) :
    (dl.n = .error errTimeout → ∃ j, j ≤ k ∧ endBefore tr j + cfg.d ≤ startOf tr j)
    ∧ (dl.n ≠ .error errTimeout → ∃ e : Ev, tr.emits[k]? = some e ∧ dl.n = e.n ∧ e.t0 ≤ dl.t0) :=
  accepts_timeout hop h hk

theorem accepted_interval {cfg : Cfg} {tr : TimedTrace} (hop : cfg.op = .interval) (h : accepts cfg tr = true)
    {k : Nat} {dl : Ev} (hk : tr.dels[k]? = some dl) :
    (∀ v, dl.n = .next v → v = (k : Int) ∧ tr.sub + (k + 1) * cfg.d ≤ dl.t0)
    ∧ (∀ c, dl.n ≠ .error c) ∧ (dl.n = .complete → CancelledBy tr dl.t0) := accepts_interval hop h hk

theorem accepted_intervalWithInitial {cfg : Cfg} {tr : TimedTrace} (hop : cfg.op = .intervalWithInitial)
    (h : accepts cfg tr = true) {k : Nat} {dl : Ev} (hk : tr.dels[k]? = some dl) :
    (∀ v, dl.n = .next v → v = (k : Int) ∧ tr.sub + cfg.d2 + k * cfg.d ≤ dl.t0) ∧ (∀ c, dl.n ≠ .error c) :=
  accepts_intervalWithInitial hop h hk

theorem accepted_timer {cfg : Cfg} {tr : TimedTrace} (hop : cfg.op = .timer) (h : accepts cfg tr = true)
    {k : Nat} {dl : Ev} (hk : tr.dels[k]? = some dl) :
    (∀ v, dl.n = .next v → k = 0 ∧ v = (cfg.d : Int) ∧ tr.sub + cfg.d ≤ dl.t0)
    ∧ (∀ c, dl.n = .error c → c = errCancelled ∧ CancelledBy tr dl.t0) := accepts_timer hop h hk

theorem accepted_range {cfg : Cfg} {tr : TimedTrace} (hop : cfg.op = .rangeWithInterval) (h : accepts cfg tr = true)
    {k : Nat} {dl : Ev} (hk : tr.dels[k]? = some dl) (v : Int) (hv : dl.n = .next v) :
    k < rangeCount cfg.a cfg.b cfg.step ∧ v = rangeVal cfg.a cfg.b cfg.step k
      ∧ tr.sub + (k + 1) * cfg.d ≤ dl.t0 := accepts_range hop h hk v hv

/-- RangeWithInterval / RangeWithStepAndInterval never complete short: the completion follows exactly ⌈|b-a| / step⌉
    values (or a cancellation) — the whole range `[a : b)`, every value of it -/
theorem accepted_range_complete {cfg : Cfg} {tr : TimedTrace} (hop : cfg.op = .rangeWithInterval) (h : accepts cfg tr = true)
    {k : Nat} {dl : Ev} (hk : tr.dels[k]? = some dl) (hc : dl.n = .complete) :
    k = rangeCount cfg.a cfg.b cfg.step ∨ CancelledBy tr dl.t0 := accepts_range_complete hop h hk hc

/-- the range `[a : b)` in steps of `step` has a value for every `k·step < |b-a|` and no other: the count is exact -/
theorem rangeCount_exact (a b : Int) (step k : Nat) (hs : 0 < step) :
    k < rangeCount a b step ↔ k * step < (b - a).natAbs := by
  unfold rangeCount
  rw [Nat.lt_div_iff_mul_lt hs]
  constructor <;> intro h <;> omega

-- non-vacuity: 0 up to 5 in steps of 2 is three values (the pinned tree delivered two: floor instead of ceiling)
example : rangeCount 0 5 2 = 3 ∧ rangeVal 0 5 2 2 = 4 := by decide
example : (rangeTrace { a := 0, b := 5, step := 2, p := 10, sub := 0, ticks := [11, 25, 31, 44], stop := none, unsub := none }).dels
    = [Ev.at 11 (.next 0), Ev.at 25 (.next 2), Ev.at 31 (.next 4), Ev.at 31 .complete] := by decide

theorem accepted_throttle {cfg : Cfg} {tr : TimedTrace} (hop : cfg.op = .throttleTime) (h : accepts cfg tr = true)
    {k : Nat} {dl pd : Ev} (hk : tr.dels[k+1]? = some dl) (hp : tr.dels[k]? = some pd) (hv : dl.n.isTerminal = false) :
    ∃ j e j' pe, srcOf tr dl.n = some (j, e) ∧ srcOf tr pd.n = some (j', pe) ∧ j' < j ∧ e.t0 ≤ dl.t0 ∧ pe.t0 + cfg.d ≤ dl.t0 :=
  accepts_throttle hop h hk hp hv

theorem accepted_sample {cfg : Cfg} {tr : TimedTrace} (hop : cfg.op = .sampleTime) (h : accepts cfg tr = true)
    {k : Nat} {dl : Ev} (hk : tr.dels[k]? = some dl) (v : Int) (hv : dl.n = .next v) :
    tr.sub + (k + 1) * cfg.d ≤ dl.t0 ∧
    ∃ j e, srcOf tr dl.n = some (j, e) ∧ e.t0 ≤ dl.t0 ∧ AfterPrev tr k j ∧ LatestAt cfg.d tr k j :=
  accepts_sample hop h hk v hv

theorem accepted_buffer {cfg : Cfg} {tr : TimedTrace} (cnt : Option Nat)
    (hop : OpAt cfg = BufferAt cnt cfg.xorder cfg.d) (h : accepts cfg tr = true)
    {k : Nat} {dl : Ev} (hk : tr.dels[k]? = some dl) (vs : List Int) (hv : dl.n = .buf vs) :
    (∀ v ∈ vs, ∃ j e, srcOf tr (.next v) = some (j, e) ∧ e.t0 ≤ dl.t0) ∧ Contiguous tr vs ∧ (cfg.xorder = true → AfterEarlierBuffers tr k vs)
      ∧ (∀ n, cnt = some n → vs.length ≤ n)
      ∧ tr.sub + (k + 1 - extraFlushes cnt tr dl.t0) * cfg.d ≤ dl.t0 :=
  accepts_buffer cnt hop h hk vs hv

/-! ### (C) deviation of the tree (known finding, recognised by its class) -/

/-- time buffers, unlock-then-emit window (C05's, by reading; micro-step witness only) -/
theorem buffer_window_witness :
    bufferMicro [] none none [.src 1, .take true, .src 2, .src 3, .take false, .send false, .send true]
      = [[2, 3], [1]] := buffer_unlock_then_emit_witness

/-- a trace OBSERVED on the unchanged real code (quick run, seed 5, case 23: `BufferWithTimeOrCount(2, 2ms)`
    over a burst 1..5 then Complete; the source's first call was held up across the first tick):
    `[2,3]` is delivered before `[1]`. It violates the clause only through the order across buffers —
    exactly the class of the known finding. -/
def observedWindowTrace : TimedTrace :=
  { sub := 14622, cut := .none
    emits := [⟨14979, 17893, .next 1⟩, ⟨17894, 17894, .next 2⟩, ⟨17895, 17898, .next 3⟩, ⟨17898, 17899, .next 4⟩,
              ⟨17899, 17908, .next 5⟩, ⟨17910, 17914, .complete⟩]
    dels := [⟨17897, 17897, .buf [2, 3]⟩, ⟨17900, 17900, .buf [1]⟩, ⟨17906, 17906, .buf [4, 5]⟩,
             ⟨17911, 17911, .buf []⟩, ⟨17911, 17911, .complete⟩] }

theorem buffer_window_observed :
    ¬ Clause { op := .bufferWithTimeOrCount, d := 2000, n := 2 } observedWindowTrace
    ∧ Clause { op := .bufferWithTimeOrCount, d := 2000, n := 2, xorder := false } observedWindowTrace := by
  constructor <;> decide

end Ro.C16

#print axioms Ro.C16.delay_never_early
#print axioms Ro.C16.delay_model_accepted
#print axioms Ro.C16.delay_silent_after_teardown
#print axioms Ro.C16.delayEach_model_accepted
#print axioms Ro.C16.interval_never_early
#print axioms Ro.C16.interval_model_accepted
#print axioms Ro.C16.timer_model_accepted
#print axioms Ro.C16.range_model_accepted
#print axioms Ro.C16.intervalWithInitial_never_early
#print axioms Ro.C16.intervalWithInitial_no_tick_before_reset
#print axioms Ro.C16.intervalWithInitial_zero_emits_at_once
#print axioms Ro.C16.timeout_sound
#print axioms Ro.C16.timeout_model_accepted
#print axioms Ro.C16.throttle_spacing
#print axioms Ro.C16.throttle_source_order
#print axioms Ro.C16.sample_latest_once
#print axioms Ro.C16.sample_one_per_tick
#print axioms Ro.C16.sample_source_order
#print axioms Ro.C16.buffers_source_order
#print axioms Ro.C16.buffers_count
#print axioms Ro.C16.accepts_sound
#print axioms Ro.C16.accepted_grammar
#print axioms Ro.C16.accepted_silent_inside
#print axioms Ro.C16.accepted_silent_outside
#print axioms Ro.C16.accepted_silent_cancel
#print axioms Ro.C16.keeps_emitting_after_cancel_rejected
#print axioms Ro.C16.accepted_delay
#print axioms Ro.C16.accepted_delayEach
#print axioms Ro.C16.accepted_timeout
#print axioms Ro.C16.accepted_interval
#print axioms Ro.C16.accepted_intervalWithInitial
#print axioms Ro.C16.accepted_timer
#print axioms Ro.C16.accepted_range
#print axioms Ro.C16.accepted_range_complete
#print axioms Ro.C16.rangeCount_exact
#print axioms Ro.C16.accepted_throttle
#print axioms Ro.C16.accepted_sample
#print axioms Ro.C16.accepted_buffer
#print axioms Ro.C16.buffer_window_witness
#print axioms Ro.C16.buffer_window_observed

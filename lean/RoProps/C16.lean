/-
  C16 — time-driven operators never act early, never reorder, and stop when told.
-/
import RoModel.Spec.Timed
namespace Ro.C16
open Ro.Timed

/-- soundness of the acceptor: an accepted trace satisfies the clause of C16 -/
theorem accepts_sound (cfg : Cfg) (tr : TimedTrace) (h : accepts cfg tr = true) : Clause cfg tr :=
  of_decide_eq_true h

end Ro.C16

#print axioms Ro.C16.accepts_sound

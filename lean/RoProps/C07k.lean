/-
  C07 (kernel part) — a terminal notification is refused only by a subscriber that is already closed.

  "A failure … reaches the subscriber exactly once as an Error notification": at most once is the
  grammar (C01); that it is not swallowed on the way is, at the subscriber, the statement below: in the
  concurrent kernel (`Kernel.Conc` running the programs of subscriberImpl / subscriptionImpl, tied to
  the Go sources by RoProps/KernelTie.lean — `progs_are_the_source`), for every mode (safe, unsafe,
  eventually-safe), any number of threads, any scripts and any schedule: whenever a thread is about to
  hand a terminal notification (Error or Complete) to the drop hook, the subscriber's status is
  already non-zero — another terminal or an Unsubscribe won.  In particular a terminal is never
  refused because the producer lock is busy (what `NextWithContext` does to values under
  `BackpressureDrop`), so the first terminal issued on an open subscriber is the one delivered.

  Control-flow facts are decided by the kernel over the finite set of reachable control states
  (`reach`, RoProofs/Kernel/Reach.lean), the run-level statement follows from `ClosedInv.past`.
-/
import RoProofs.Kernel.Main
import RoProps.KernelTie
namespace Ro.C07k
open Ro.Kernel

def isTermDrop : Head → Bool
  | .stmt (.drop k) => k.isTerminal
  | _ => false

/-- a terminal drop sits after the status CAS of its call -/
theorem termDrop_after_cas : reach.all (fun c => !isTermDrop c.head || !c.beforeCas) = true := by decide +kernel

/-- only `ErrorWithContext` / `CompleteWithContext` hand a terminal to the drop hook -/
theorem termDrop_only_in_terminals :
    [Meth.subNext, .subUnsubscribe, .subIsClosed, .snAdd, .snWait].all
      (fun m => (reachM m).all (fun c => !isTermDrop c.head)) = true := by decide +kernel

theorem idle_not_termDrop : isTermDrop Ctl.idle.head = false := by decide

/-- **a terminal is handed to the drop hook only when the subscriber is already closed** — every mode,
    any threads, scripts and schedule -/
theorem kernel_terminal_refused_only_when_closed (mode : Mode) (destNil : Bool) (panicky : List FinId)
    (scripts : List (List ApiCall)) (sched : List Tid) (t : Tid) (th : Thread)
    (hth : (run Expected.progs (init mode destNil panicky scripts) sched).threads[t]? = some th)
    (hd : isTermDrop th.ctl.head = true) :
    (run Expected.progs (init mode destNil panicky scripts) sched).sh.status ≠ 0 := by
  have hk := kinv_reachable mode destNil panicky scripts sched
  cases hcur : th.cur with
  | none =>
    have := hk.closed.idle t th hth hcur
    rw [this, idle_not_termDrop] at hd
    cases hd
  | some c =>
    have hrm := hk.closed.busy t th c hth hcur
    have hnot : ∀ m ∈ [Meth.subNext, .subUnsubscribe, .subIsClosed, .snAdd, .snWait], c.entry = m → False := by
      intro m hm he
      have h1 := List.all_eq_true.mp termDrop_only_in_terminals m hm
      have h2 := List.all_eq_true.mp h1 th.ctl (he ▸ hrm)
      simp [hd] at h2
    have hcl : c.closes = true := by
      cases c with
      | next v => exact absurd rfl (fun h => hnot .subNext (by simp) h)
      | error e => rfl
      | complete => rfl
      | unsubscribe => rfl
      | add f => exact absurd rfl (fun h => hnot .snAdd (by simp) h)
      | wait f => exact absurd rfl (fun h => hnot .snWait (by simp) h)
      | isClosed => exact absurd rfl (fun h => hnot .subIsClosed (by simp) h)
    have hr := hk.lock.inReach t th hth
    have hb := List.all_eq_true.mp termDrop_after_cas th.ctl hr
    simp [hd] at hb
    exact hk.closed.past t th c hth hcur hcl hb

/-- non-vacuity: a second terminal on a closed subscriber does reach the drop hook (the state the
    theorem talks about exists) -/
example : (run Expected.progs (init .safe false [] [[.complete, .error 7]]) (List.replicate 40 0)).sh.log.any
    (fun e => match e with | .drop _ .error _ => true | _ => false) = true := by decide +kernel

end Ro.C07k

#print axioms Ro.C07k.termDrop_after_cas
#print axioms Ro.C07k.termDrop_only_in_terminals
#print axioms Ro.C07k.kernel_terminal_refused_only_when_closed

/-
  C08, synchronous half — a producer's call to Next returns only after everything the value gives
  rise to has been delivered, on the caller's goroutine.
  (1) model: `runOp_steps` — one `steps` entry per upstream call; the delivered trace is exactly the
      subscribe-time emissions plus the deliveries made during each call;
  (2) that this is the right model for an operator is the fact `asyncEmit = false` of the
      regenerated table (every `destination.*` call sits in a source-callback context), decided by
      the kernel on every run; the operators that do emit from their own goroutine/timer are the
      listed hand-off and time-driven ones (`asyncByDesign`).
-/
import RoProofs.Steps
import RoModel.FactPreds
import RoModel.Ops.Aggregate
import RoGen.Catalogue
namespace Ro.C08s
open Ro Ro.Facts

theorem steps_account {σ α β : Type} (m : Machine σ α β) (mode : SrcMode) (sub : Ctx) (raw : List (Notif α))
    (hs : m.subscribes = true) :
    (runOp m mode sub raw).steps.length = raw.length ∧
    (runOp m mode sub raw).out.length = (m.start sub).out.length + (runOp m mode sub raw).steps.sum :=
  runOp_steps m mode sub raw hs

theorem table_ok : RoGen.Catalogue.table.all c08RowOk = true := by decide

theorem async_rows :
    ((RoGen.Catalogue.table.filter (·.asyncEmit)).map (·.name)).all (asyncByDesign.contains ·) = true := by decide

-- non-vacuity: Take(2) over four values: deliveries 1, 2 (value + completion), 0, 0
example : (runOp (takeM (α := Int) 2) .sync {} [.next {} 1, .next {} 2, .next {} 3, .complete {}]).steps = [1, 2, 0, 0] := by decide

end Ro.C08s

#print axioms Ro.C08s.steps_account
#print axioms Ro.C08s.table_ok
#print axioms Ro.C08s.async_rows

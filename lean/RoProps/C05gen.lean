/-
  RoProps.C05gen — the multi-source machines REGENERATED from the Go source on every run
  (go/extract/multigen.go → RoGen/MultiGen.lean: TakeUntil, SkipUntil, SampleWhen, ThrottleWhen, MergeAll — and with it
  Merge / MergeWith* / MergeMap*, which are MergeAll over a synchronous or projected outer observable) refine the
  hand-written machines of RoModel/Multi/OpsA.lean, which are what the C05 theorems (RoProps/C05a.lean) are about.

  For each operator: `…_sim` (`MMachine.Sim` through an explicit relation between the Go locals as the translator
  encodes them and the hand-written state), hence — `MMachine.Sim.run` / `.runCut`, RoProofs/MultiSim.lean — for EVERY
  configuration of sources (hot or synchronous, any scripts, legal or not), subscription context, interleaving and
  external cut, the regenerated machine and the hand-written one deliver the same trace, refuse the same
  notifications, subscribe and release the same sources with the same contexts. `…_gen` restates the C05 theorem of
  each operator for the regenerated machine.

  A change of the Go source of one of these operators changes RoGen/MultiGen.lean; if the change alters what the
  operator does, the corresponding `…_sim` no longer checks and `lake build RoProps.C05gen` fails (the check then
  searches the correspondence runs of that operator for a failing input, tools/checks/C05_gen.py).
-/
import RoGen.MultiGen
import RoProofs.MultiSim
import RoProps.C05a
namespace Ro.C05gen
open Ro Ro.Multi Ro.Multi.GenB RoGen.Multi

variable {α : Type}

/-- unfold a regenerated machine's phase list and relate it, phase by phase, to the hand-written one -/
syntax "phases_rel" : tactic
macro_rules
  | `(tactic| phases_rel) => `(tactic|
      (simp only [phasesOf, atoms, group, hasAct, List.append_nil, List.nil_append, List.cons_append, Bool.or_false, Bool.or_true,
          Bool.false_or, Bool.true_or, if_true, if_false, Bool.false_eq_true] <;>
        repeat' (first | exact PhasesRel.nil | apply PhasesRel.cons)))

/-! ## TakeUntil -/

def takeUntilRel (g : TakeUntilSt) (h : UntilSt) : Prop :=
  g.v0 = (if h.ready then 1 else 0) ∧ g.comp = h.comp

theorem takeUntil_sim : (takeUntilG (α := α)).Sim takeUntilRel takeUntilM where
  init := ⟨rfl, rfl⟩
  boot c := by
    simp only [takeUntilG, build, takeUntilM, untilBoot]
    phases_rel <;> (intro s1 s2 h; obtain ⟨h1, h2⟩ := h; simp [single, takeUntilRel, takeUntilL, h2]; try exact h1)
  react k n := by
    simp only [takeUntilG, build, takeUntilM]
    rcases k with _ | k <;> cases n <;> simp only [Nat.succ_ne_zero, if_true, if_false] <;>
      phases_rel <;> (intro s1 s2 h; obtain ⟨h1, h2⟩ := h; cases hr : s2.ready <;> simp_all [single, takeUntilRel])
  teardown s1 s2 h := by
    obtain ⟨h1, h2⟩ := h
    refine ⟨⟨h1, ?_⟩, ?_⟩ <;> simp [takeUntilG, build, unsubAll, takeUntilL, takeUntilM, h2]

/-! ## SkipUntil -/

def skipUntilRel (g : SkipUntilSt) (h : UntilSt) : Prop :=
  g.v0 = (if h.ready then 1 else 0) ∧ g.comp = h.comp

theorem skipUntil_sim : (skipUntilG (α := α)).Sim skipUntilRel skipUntilM where
  init := ⟨rfl, rfl⟩
  boot c := by
    simp only [skipUntilG, build, skipUntilM, untilBoot]
    phases_rel <;> (intro s1 s2 h; obtain ⟨h1, h2⟩ := h; simp [single, skipUntilRel, skipUntilL, h2]; try exact h1)
  react k n := by
    simp only [skipUntilG, build, skipUntilM]
    rcases k with _ | k <;> cases n <;> simp only [Nat.succ_ne_zero, if_true, if_false] <;>
      phases_rel <;> (intro s1 s2 h; obtain ⟨h1, h2⟩ := h; cases hr : s2.ready <;> simp_all [single, skipUntilRel])
  teardown s1 s2 h := by
    obtain ⟨h1, h2⟩ := h
    refine ⟨⟨h1, ?_⟩, ?_⟩ <;> simp [skipUntilG, build, unsubAll, skipUntilL, skipUntilM, h2]

/-! ## SampleWhen — the Go code keeps the last value in a zero-initialised tuple next to `hasValue`; the
    hand-written machine keeps an `Option`. Related: same `hasValue`, and while it is set the same pair. -/

def sampleWhenRel (g : SampleWhenSt α) (h : SampleSt α) : Prop :=
  g.v1 = h.hasValue ∧ (h.hasValue = true → h.last = some g.v0) ∧ g.comp = h.comp

theorem sampleWhen_sim [Inhabited α] : (sampleWhenG (α := α)).Sim sampleWhenRel sampleWhenM where
  init := ⟨rfl, by simp [sampleWhenM], rfl⟩
  boot c := by
    simp only [sampleWhenG, build, sampleWhenM]
    phases_rel <;> (intro s1 s2 h; obtain ⟨h1, h2, h3⟩ := h; simp_all [single, sampleWhenRel, sampleWhenL])
  react k n := by
    simp only [sampleWhenG, build, sampleWhenM]
    rcases k with _ | k <;> cases n <;> simp only [Nat.succ_ne_zero, if_true, if_false] <;>
      phases_rel <;> (intro s1 s2 h; obtain ⟨h1, h2, h3⟩ := h; cases hv : s2.hasValue <;> simp_all [single, sampleWhenRel])
  teardown s1 s2 h := by
    obtain ⟨h1, h2, h3⟩ := h
    simp_all [sampleWhenG, build, unsubAll, sampleWhenL, sampleWhenM, sampleWhenRel]

/-! ## ThrottleWhen -/

def throttleWhenRel (g : ThrottleWhenSt) (h : ThrottleSt) : Prop :=
  g.v0 = (if h.send then 1 else 0) ∧ g.comp = h.comp

theorem throttleWhen_sim : (throttleWhenG (α := α)).Sim throttleWhenRel throttleWhenM where
  init := ⟨rfl, rfl⟩
  boot c := by
    simp only [throttleWhenG, build, throttleWhenM]
    phases_rel <;> (intro s1 s2 h; obtain ⟨h1, h2⟩ := h; simp [single, throttleWhenRel, throttleWhenL, h2]; try exact h1)
  react k n := by
    simp only [throttleWhenG, build, throttleWhenM]
    rcases k with _ | k <;> cases n <;> simp only [Nat.succ_ne_zero, if_true, if_false] <;>
      phases_rel <;> (intro s1 s2 h; obtain ⟨h1, h2⟩ := h; cases hr : s2.send <;> simp_all [single, throttleWhenRel])
  teardown s1 s2 h := by
    obtain ⟨h1, h2⟩ := h
    refine ⟨⟨h1, ?_⟩, ?_⟩ <;> simp [throttleWhenG, build, unsubAll, throttleWhenL, throttleWhenM, h2]

/-! ## MergeAll — `idx v` is the inner source a value `v` of the outer observable stands for. The hand-written
    machine also carries MergeMap's index `i` (unused by MergeAll's own projection). -/

def mergeAllRel (g : MergeAllSt) (h : MergeSt) : Prop :=
  g.v0 = h.parentCtx ∧ g.v1 = h.count ∧ g.comp = h.comp

theorem mergeAll_sim (idx : α → Nat) : (mergeAllG idx).Sim mergeAllRel (mergeAllM (fun c v _ => (c, idx v))) where
  init := ⟨rfl, rfl, rfl⟩
  boot c := by
    simp only [mergeAllG, build, mergeAllM]
    phases_rel <;> (intro s1 s2 h; obtain ⟨h1, h2, h3⟩ := h; simp [single, mergeAllRel, mergeAllL, h1, h2, h3])
  react k n := by
    simp only [mergeAllG, build, mergeAllM]
    rcases k with _ | k <;> cases n <;> simp only [Nat.succ_ne_zero, if_true, if_false] <;>
      phases_rel <;> (intro s1 s2 h; obtain ⟨h1, h2, h3⟩ := h; simp [single, mergeAllRel, mergeAllL, MergeSt.onDone, h1, h2, h3] <;>
        first | done | (split <;> simp_all [Int.sub_eq_add_neg]))
  teardown s1 s2 h := by
    obtain ⟨h1, h2, h3⟩ := h
    refine ⟨⟨h1, h2, ?_⟩, ?_⟩ <;> simp [mergeAllG, build, unsubAll, mergeAllL, mergeAllM, h3]

/-! ## what the ties buy: the C05 theorems hold of the machines regenerated from the source -/

open Ro.C05a in
/-- TakeUntil as regenerated from operator_filter.go: for every pair of scripts and EVERY interleaving the delivered
    trace is the definition's output for that arrival order (minus the signal's error: the known finding) -/
theorem takeUntil_impl_gen (scripts : List (List (Notif α))) (sub : Ctx) (order : List Nat) :
    (runMulti takeUntilG (Sources.hot scripts) sub order).out =
      Spec.takeUntil false (heard2 (eventsOf (Sources.hot scripts) order)) := by
  rw [takeUntil_sim.out]; exact takeUntil_impl scripts sub order

open Ro.C05a in
theorem takeUntil_partial_gen (scripts : List (List (Notif α))) (sub : Ctx) (order : List Nat)
    (h : noSignalError (heard2 (eventsOf (Sources.hot scripts) order)) = true) :
    (runMulti takeUntilG (Sources.hot scripts) sub order).out =
      Spec.takeUntil true (heard2 (eventsOf (Sources.hot scripts) order)) := by
  rw [takeUntil_sim.out]; exact takeUntil_partial scripts sub order h

open Ro.C05a in
theorem skipUntil_impl_gen (scripts : List (List (Notif α))) (sub : Ctx) (order : List Nat) :
    (runMulti skipUntilG (Sources.hot scripts) sub order).out =
      Spec.skipUntil false false (heard2 (eventsOf (Sources.hot scripts) order)) := by
  rw [skipUntil_sim.out]; exact skipUntil_impl scripts sub order

open Ro.C05a in
theorem sampleWhen_gen [Inhabited α] (scripts : List (List (Notif α))) (sub : Ctx) (order : List Nat) :
    (runMulti sampleWhenG (Sources.hot scripts) sub order).out =
      Spec.sampleWhen none (heard2 (eventsOf (Sources.hot scripts) order)) := by
  rw [sampleWhen_sim.out]; exact sampleWhen scripts sub order

open Ro.C05a in
theorem throttleWhen_gen (scripts : List (List (Notif α))) (sub : Ctx) (order : List Nat) :
    (runMulti throttleWhenG (Sources.hot scripts) sub order).out =
      Spec.throttleWhen false (heard2 (eventsOf (Sources.hot scripts) order)) := by
  rw [throttleWhen_sim.out]; exact throttleWhen scripts sub order

open Ro.C05a in
/-- MergeAll as regenerated from operator_combining.go, hot outer observable: the delivered trace is the definition's
    output for the arrival order, for every tuple of scripts and EVERY interleaving -/
theorem mergeAll_gen (idx : α → Nat) (scripts : List (List (Notif α))) (sub : Ctx) (order : List Nat)
    (hf : freshNames (fun c v _ => (c, idx v)) (fun k => k == 0) (fun _ => false) 0 (eventsOf (Sources.hot scripts) order) = true) :
    (runMulti (mergeAllG idx) (Sources.hot scripts) sub order).out =
      Spec.mergeAll 1 Ctx.nil (Spec.heard (fun c v _ => (c, idx v)) (fun k => k == 0) (fun _ => false) 0 (eventsOf (Sources.hot scripts) order)) := by
  rw [(mergeAll_sim idx).out]; exact mergeAll _ scripts sub order hf

open Ro.C05a in
/-- `Merge(s₁…sₙ)` / `MergeWith*` (= `MergeAll()(Just(s₁…sₙ))`, synchronous outer) on the regenerated machine -/
theorem merge_gen (scripts : List (List (Notif Int))) (sub : Ctx) (order : List Nat) :
    (runMulti (mergeAllG Int.toNat) (mergeSources sub scripts) sub order).out =
      Spec.merge sub scripts.length
        (Spec.gateEvents (Spec.restrict (inner scripts.length) (eventsOf (mergeSources sub scripts) order))) := by
  rw [(mergeAll_sim Int.toNat).out]; exact merge scripts sub order

open Ro.C05a in
theorem merge_releases_gen (scripts : List (List (Notif Int))) (sub : Ctx) (order : List Nat)
    (h : (runMulti (mergeAllG Int.toNat) (mergeSources sub scripts) sub order).downOpen = false) (k : Nat)
    (hk : 1 ≤ k ∧ k ≤ scripts.length) :
    (runMulti (mergeAllG Int.toNat) (mergeSources sub scripts) sub order).sopen k = false := by
  have r := (mergeAll_sim Int.toNat).run (mergeSources sub scripts) sub order
  rw [r.downOpen] at h
  rw [r.sopen]; exact merge_releases scripts sub order h k hk

/-- release (C03 / C14 for these operators): once the regenerated machine's output has ended, both sources are released -/
theorem release_gen [Inhabited α] (scripts : List (List (Notif α))) (sub : Ctx) (order : List Nat) (k : Nat) (hk : k < 2) :
    ((runMulti takeUntilG (Sources.hot scripts) sub order).downOpen = false →
      (runMulti takeUntilG (Sources.hot scripts) sub order).sopen k = false) ∧
    ((runMulti skipUntilG (Sources.hot scripts) sub order).downOpen = false →
      (runMulti skipUntilG (Sources.hot scripts) sub order).sopen k = false) ∧
    ((runMulti sampleWhenG (Sources.hot scripts) sub order).downOpen = false →
      (runMulti sampleWhenG (Sources.hot scripts) sub order).sopen k = false) ∧
    ((runMulti throttleWhenG (Sources.hot scripts) sub order).downOpen = false →
      (runMulti throttleWhenG (Sources.hot scripts) sub order).sopen k = false) := by
  have h := Ro.C05a.until_sample_throttle_release scripts sub order k hk
  have t := (takeUntil_sim (α := α)).run (Sources.hot scripts) sub order
  have s := (skipUntil_sim (α := α)).run (Sources.hot scripts) sub order
  have a := (sampleWhen_sim (α := α)).run (Sources.hot scripts) sub order
  have w := (throttleWhen_sim (α := α)).run (Sources.hot scripts) sub order
  rw [t.downOpen, t.sopen, s.downOpen, s.sopen, a.downOpen, a.sopen, w.downOpen, w.sopen]
  exact h

/-- every operator of the list was translated (a source that leaves the fragment is reported, not skipped silently) -/
theorem nothing_skipped : RoGen.Multi.skipped = [] := by decide
theorem translated_names : RoGen.Multi.translated = ["TakeUntil", "SkipUntil", "SampleWhen", "ThrottleWhen", "MergeAll"] := by decide

/-! ### tests of the regenerated machines (labelled as tests): the witness runs of C05a, on the regenerated text -/
example : (runMulti (takeUntilG (α := Int)) (Sources.hot Ro.C05a.wScriptsTake) { marks := [7] } [0, 1, 0, 0]).out
    = [.next (Ro.C05a.wc 1) 11, .next (Ro.C05a.wc 2) 12, .complete (Ro.C05a.wc 3)] := by decide
example : (runMulti (sampleWhenG (α := Int)) (Sources.hot [[.next {} 1, .next {} 2, .complete {}], [.next {} 9, .next {} 9]]) {} [0, 0, 1, 1, 0]).out
    = [.next {} 2, .complete {}] := by decide

end Ro.C05gen

#print axioms Ro.C05gen.takeUntil_sim
#print axioms Ro.C05gen.skipUntil_sim
#print axioms Ro.C05gen.sampleWhen_sim
#print axioms Ro.C05gen.throttleWhen_sim
#print axioms Ro.C05gen.mergeAll_sim
#print axioms Ro.C05gen.takeUntil_impl_gen
#print axioms Ro.C05gen.takeUntil_partial_gen
#print axioms Ro.C05gen.skipUntil_impl_gen
#print axioms Ro.C05gen.sampleWhen_gen
#print axioms Ro.C05gen.throttleWhen_gen
#print axioms Ro.C05gen.release_gen
#print axioms Ro.C05gen.mergeAll_gen
#print axioms Ro.C05gen.merge_gen
#print axioms Ro.C05gen.merge_releases_gen
#print axioms Ro.C05gen.nothing_skipped
#print axioms Ro.C05gen.translated_names

import RoModel.Driver
def main : IO Unit := do
  let stdin ← IO.getStdin
  let stdout ← IO.getStdout
  Ro.Driver.loop stdin stdout
